#!/venv/bin/python
"""Apply a textual mutation to a scratch copy of /repo/src and run checks against it.
usage: tools/mut.py FILE OLD NEW PROP [PROP...] [--tier T] [--suite]
   or: tools/mut.py --patch file.diff PROP...
Exit summary: for each prop, rc (1 = caught)."""
import os, shutil, subprocess, sys, tempfile
args = sys.argv[1:]
tier = "quick"
suite = False
if "--tier" in args:
    i = args.index("--tier"); tier = args[i + 1]; del args[i:i + 2]
if "--suite" in args:
    args.remove("--suite"); suite = True
d = tempfile.mkdtemp(prefix="vfmut-")
try:
    shutil.copytree("/repo/src", d + "/src")
    os.symlink("/repo/tests", d + "/tests")
    for f in ("pyproject.toml",):
        shutil.copy("/repo/" + f, d + "/" + f)
    if args[0] == "--patch":
        subprocess.run(["patch", "-p1", "-d", d, "-i", os.path.abspath(args[1])], check=True, capture_output=True)
        props = args[2:]
    else:
        f, old, new = args[:3]
        props = args[3:]
        p = os.path.join(d, "src/numbers_parser", f)
        s = open(p).read()
        assert s.count(old) >= 1, f"OLD not found in {f}"
        open(p, "w").write(s.replace(old, new, 1))
    if suite:
        r = subprocess.run(["/verif/tools/suite.sh", d], capture_output=True, text=True)
        print("suite:", r.stdout.strip().splitlines()[0] if r.stdout else r.stderr[-300:])
    for pid in props:
        env = dict(os.environ, VERIF_REPO=d)
        r = subprocess.run(["/verif/check", pid, "--tier", tier, "--no-evidence"], capture_output=True, text=True, env=env)
        lines = [l for l in r.stdout.splitlines() if l.startswith(("VIOLATION", "  sub-oracle", "INCONCLUSIVE", "KNOWN"))]
        print(f"{pid}: rc={r.returncode} {'CAUGHT' if r.returncode == 1 else 'MISSED' if r.returncode == 0 else 'INCONCLUSIVE'}")
        for l in lines[:6]:
            print("   ", l[:220])
finally:
    shutil.rmtree(d, ignore_errors=True)
