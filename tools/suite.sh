#!/bin/bash
# Runs the repository's unedited test suite (guard off) in parallel and compares the passing
# set with BASELINE.json's stable_pass list.  usage: tools/suite.sh [repo-dir]
REPO="${1:-/repo}"
OUT=$(mktemp -d)
cd "$REPO" && env -u NUMBERS_PARSER_VERIF PYTHONPATH="$REPO/src" /venv/bin/python -m pytest -q -p no:cacheprovider --no-cov -n 16 --timeout=900 \
   --continue-on-collection-errors --junitxml="$OUT/j.xml" >"$OUT/log" 2>&1
/venv/bin/python - "$OUT/j.xml" <<'P'
import sys, json, xml.etree.ElementTree as ET
base = set(json.load(open('/root/.vp/BASELINE.json'))['stable_pass'])
passed = set()
for tc in ET.parse(sys.argv[1]).getroot().iter('testcase'):
    if not any(ch.tag in ('failure', 'error', 'skipped') for ch in tc):
        passed.add(tc.get('classname') + '::' + tc.get('name'))
missing = sorted(base - passed)
print(f"suite: {len(passed)} passed, baseline {len(base)}, baseline tests not passing: {len(missing)}")
for m in missing: print("  MISSING", m)
sys.exit(1 if missing else 0)
P
rc=$?
rm -rf "$OUT"
exit $rc
