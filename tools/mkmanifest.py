#!/venv/bin/python
"""Regenerates MANIFEST.json from the table below + which props modules exist."""
import json, os, sys
HOME = os.path.dirname(os.path.dirname(os.path.abspath(__file__)))
sys.path.insert(0, os.path.join(HOME, "tools"))
from manifest_table import CHECKS, NOTES  # noqa: E402

props = [json.loads(l) for l in open(os.path.join(HOME, "properties.jsonl"))]
checks = []
na = []
for p in props:
    pid = p["id"]
    modpath = os.path.join(HOME, "lib", "vf", "props", pid.lower() + ".py")
    if pid in CHECKS and os.path.exists(modpath):
        c = CHECKS[pid]
        checks.append({
            "property_id": pid,
            "quick_cmd": f"./check {pid} --tier quick",
            "thorough_cmd": f"./check {pid} --tier thorough",
            "evidence_file": f"evidence/{pid}.json",
            "replay_cmd_template": f"./check {pid} --replay {{path}}",
            "engine": "vf",
            "level_claimed": {"category": c["level"], "text": c["text"], "design_ref": f"DESIGN.md section 4, {pid}"},
            "level_note": c["note"],
            "technique": c["technique"],
        })
    else:
        na.append({"property_id": pid, "reason": "check not built yet (work in progress; runtime monitoring applies, see DESIGN.md section 4)"})
m = {
    "version": 1,
    "setup_cmd": "PIP_NO_INDEX=1 /venv/bin/python -m pip install -q --no-index --find-links /opt/veriftools/wheels --target /verif/.deps icontract deal && ./check --selftest",
    "hooks": {
        "guard": "NUMBERS_PARSER_VERIF",
        "enable": "no hooks live in the repository: ./check sets NUMBERS_PARSER_VERIF=1 and PYTHONPATH=/verif/lib:/repo/src:/verif/.deps; vf.nsan rebinds the library's functions with recording contracts inside the check's own worker processes",
        "baseline_off_cmd": "cd /repo && /venv/bin/python -m pytest -ra -q -p no:cacheprovider --timeout=900 --continue-on-collection-errors",
        "source_commits": [],
        "add_only": True,
    },
    "engines": [
        {"name": "vf", "path": "lib/vf", "serves_properties": [c["property_id"] for c in checks],
         "kind_free_text": "runtime monitoring: generated/hostile workloads drive the real library in worker subprocesses; inline icontract recording contracts (vf.nsan), API-boundary event logs replayed against small reference models (vf.ref), artefact validators over saved packages, metamorphic snapshot comparison; three-valued verdicts, known-finding classifier"},
    ],
    "checks": checks,
    "notes": NOTES,
    "not_applicable": na,
}
if not na:
    m["not_applicable"] = []
json.dump(m, open(os.path.join(HOME, "MANIFEST.json"), "w"), indent=1)
print("checks:", [c["property_id"] for c in checks], "na:", [n["property_id"] for n in na])
