#!/bin/bash
# usage: tools/seeded_matrix.sh [seed-dir-glob] [--all-checks]
# Regression matrix of the seeded changes: for every /verif/seeded/<ID>-<x>/ applies patch.diff to a scratch
# worktree of /repo (outside /repo and /verif, removed afterwards), runs the owning check (meta.json "decided_by" if present, else the <ID> of the directory name; quick tier, VERIF_SEED
# as given) against it and writes seeded/<ID>-<x>/caught.json with the exit code and the violated sub-oracles.
# Exit 0 iff every seeded change is caught (rc=1) by its owning check.
GLOB="${1:-*}"; ALL="$2"
V="$(cd "$(dirname "$0")/.." && pwd)"
WT="$(mktemp -d /var/tmp/seedwt.XXXXXX)"
rmdir "$WT"; git -C /repo worktree add -q --detach "$WT" HEAD || exit 2
trap 'git -C /repo worktree remove --force "$WT" 2>/dev/null; rm -rf "$WT"' EXIT
miss=0
for D in "$V"/seeded/$GLOB; do
  [ -f "$D/patch.diff" ] || continue
  name=$(basename "$D"); P=${name%%-*}
  git -C "$WT" checkout -q -- . ; git -C "$WT" apply "$D/patch.diff" || { echo "$name patch does not apply"; miss=1; continue; }
  own=$(/venv/bin/python -c "import json,sys; m=json.load(open(sys.argv[1])); print(' '.join(m.get('decided_by') or [sys.argv[2]]))" "$D/meta.json" "$P")
  nc=$(/venv/bin/python -c "import json,sys; print(1 if json.load(open(sys.argv[1])).get('not_claimed') else 0)" "$D/meta.json")
  props="$own"; [ -n "$ALL" ] && props="C01 C02 C03 C04 C05 C06 C07 C08 C09 C10 C11 C12 C13 C14 C15 C16 C17 C18 C19 C20"
  : > "$D/.caught.tmp"
  for prop in $props; do
    out=$(VERIF_REPO="$WT" "$V/check" "$prop" --tier "${TIER:-quick}" --no-evidence --classes 2>&1); rc=$?
    subs=$(echo "$out" | grep -o "sub-oracle=[a-z_A-Z0-9]*" | sort -u | sed 's/sub-oracle=//' | tr '\n' ' ')
    echo "$name check=$prop rc=$rc subs: $subs"
    echo "$prop $rc $subs" >> "$D/.caught.tmp"
    case " $own " in *" $prop "*) [ $rc != 1 ] && [ "$nc" = 0 ] && miss=1;; esac
    [ "$nc" = 1 ] && echo "   ($name is recorded as not claimed: see its meta.json)"
  done
  /venv/bin/python - "$D" "${VERIF_SEED:-0}" "${TIER:-quick}" <<'PY'
import json, sys, os
d, seed, tier = sys.argv[1:4]
rows = [l.split() for l in open(d + "/.caught.tmp") if l.strip()]
os.remove(d + "/.caught.tmp")
p = d + "/caught.json"
try:
    cur = json.load(open(p))
except Exception:
    cur = {}
for r in rows:
    cur[r[0]] = {"rc": int(r[1]), "verdict": {0: "missed", 1: "caught", 2: "inconclusive"}.get(int(r[1]), "error"), "sub_oracles": r[2:], "tier": tier, "seed": int(seed)}
json.dump(cur, open(p, "w"), indent=1, sort_keys=True)
PY
done
exit $miss
