#!/bin/bash
# usage: tools/runall.sh [quick|thorough] [seed]  -- runs every claimed check, prints rc and wall time
TIER="${1:-quick}"; SEED="${2:-0}"
cd "$(dirname "$0")/.."
for p in C01 C02 C03 C04 C05 C06 C07 C08 C09 C10 C11 C12 C13 C14 C15 C16 C17 C18 C19 C20; do
  s=$(date +%s)
  out=$(VERIF_SEED=$SEED ./check $p --tier $TIER 2>&1); rc=$?
  e=$(date +%s)
  echo "$p rc=$rc $((e-s))s $(echo "$out" | grep -c '^KNOWN-FINDING') known | $(echo "$out" | grep -E '^(VIOLATION|INCONCLUSIVE)' | head -2 | cut -c1-160 | tr '\n' ' ')"
done
