NOTES = ("Technique family: runtime monitoring only. The library is single-threaded pure Python with no native code of its own, so compiler sanitizers, "
         "race detectors and schedule exploration do not apply (DESIGN.md section 1); every property is decided by monitors observing executions of the real code. "
         "Exit codes: 0 held on what was observed, 1 VIOLATION, 2 INCONCLUSIVE (a monitor was not reached / a floor was not met / a worker died).")
CHECKS = {
 "C10": {"level": "exploration",
         "text": "Enumeration of the whole finite domain: all 18278 column names against a bijective base-26 reference with injectivity, order and length classes, four inverse functions incl. the tokenizer's; all rows 0..1000000 x 4 '$' forms x 6 columns in the thorough tier (strided + boundary rows in quick); range collapse over corner grid; negatives. exhaustive=true in thorough.",
         "note": "trusts ref/a1.py (divmod definition of bijective base-26) and CPython; four-letter columns out of scope",
         "technique": "runtime monitoring: exhaustive enumeration through the real functions with an inline inverse contract (icontract) and a reference implementation"},
 "C18": {"level": "exploration",
         "text": "Every string of length <= 4 (quick) / <= 5 (thorough) over a 36-symbol alphabet of letters, digits, operators, both quote characters and separators is tokenized by the real Tokenizer under four monitors (only TokenizerError may escape; token texts concatenate to the input; no token boundary inside a quoted run by an independent scanner; reader output accepted), plus random fragment strings and every formula read from the fixtures. Held on what was run; the property's domain (all strings) is unbounded.",
         "note": "quote-span scanner of DESIGN A.7 defines 'quoted run'; token types are not judged",
         "technique": "runtime monitoring: bounded-exhaustive + random input enumeration through the real tokenizer with an inline lossless/totality contract and an independent quote scanner"},
 "C04": {"level": "exploration",
         "text": "All 8 encodable kinds x all 4096 subsets of the 12 optional ids (sentinel per field) are encoded by the real Cell._to_buffer and decoded by an independent reference codec and by the library; records from the reference encoder over subsets of the 16 non-payload flag bits x 9 kinds (all 65536 subsets in thorough) are decoded by the real Cell._from_storage; every stored record of every fixture passes through the inline decode contract. exhaustive over the flag lattice in the thorough tier, sampled over payload values.",
         "note": "trusts ref/cellrec.py as the published v5 layout (validated: consumes all ~75k fixture records to the last byte); uninterpreted fields only have to be skipped in place",
         "technique": "runtime monitoring: inline icontract post-conditions on the real encoder/decoder + differential execution against an independent record codec over the exhaustive flag lattice"},
 "C05": {"level": "exploration",
         "text": "Every .iwa member of every fixture and the template (about 5300), the members of API-generated documents and synthetic archives at the 64 KiB boundaries (compressible and incompressible, multi-message, unknown fields) are decoded and re-encoded by the real IWAFile and compared segment by segment (header bytes, message bytes, plaintext identity) with an independent container codec; each stream is re-cut at systematic and random boundaries with stored/compressed chunks and must decode to the same archives; every output is checked against the container rules.",
         "note": "trusts cramjam, protobuf and my reading of the container format in ref/iwa.py (validated on all fixture archives); compressed bytes are not compared",
         "technique": "runtime monitoring: differential execution of the real codec against an independent container codec, metamorphic re-chunking, inline container-rule contract on every to_buffer"},
}
