NOTES = ("Technique family: runtime monitoring only. The library is single-threaded pure Python with no native code of its own, so compiler sanitizers, "
         "race detectors and schedule exploration do not apply (DESIGN.md section 1); every property is decided by monitors observing executions of the real code. "
         "Exit codes: 0 held on what was observed, 1 VIOLATION, 2 INCONCLUSIVE (a monitor was not reached / a floor was not met / a worker died).")
CHECKS = {
 "C10": {"level": "exploration",
         "text": "Enumeration of the whole finite domain: all 18278 column names against a bijective base-26 reference with injectivity, order and length classes, four inverse functions incl. the tokenizer's; all rows 0..1000000 x 4 '$' forms x 6 columns in the thorough tier (strided + boundary rows in quick); range collapse over corner grid; negatives. exhaustive=true in thorough.",
         "note": "trusts ref/a1.py (divmod definition of bijective base-26) and CPython; four-letter columns out of scope",
         "technique": "runtime monitoring: exhaustive enumeration through the real functions with an inline inverse contract (icontract) and a reference implementation"},
}
