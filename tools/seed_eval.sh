#!/bin/bash
# usage: tools/seed_eval.sh <worktree> <a|b> <PROP> [extra props...]
# Confirms a seeded change (demo passes without / fails with, suite still passes), runs the check(s) against it,
# and stores it under /verif/seeded/<PROP>-<letter>/.
WT="$1"; L="$2"; P="$3"; shift 3
S="$WT/seed/$L"
cd "$WT" || exit 2
git checkout -q -- src 2>/dev/null
PYTHONPATH="$WT/src" /venv/bin/python "$S/demo.py" >/dev/null 2>&1; clean_rc=$?
git apply --check "$S/patch.diff" || { echo "patch does not apply"; exit 2; }
git apply "$S/patch.diff"
PYTHONPATH="$WT/src" /venv/bin/python "$S/demo.py" >/dev/null 2>&1; seeded_rc=$?
suite=$(/verif/tools/suite.sh "$WT" | head -1)
echo "== $P-${STORE:-$L}: demo clean rc=$clean_rc seeded rc=$seeded_rc | $suite"
caught=""
for prop in "$P" "$@"; do
  out=$(VERIF_REPO="$WT" /verif/check "$prop" --tier "${TIER:-quick}" --no-evidence 2>&1); rc=$?
  echo "   check $prop rc=$rc $( [ $rc = 1 ] && echo CAUGHT || ([ $rc = 0 ] && echo MISSED || echo INCONCLUSIVE) )"
  echo "$out" | grep -A1 "^VIOLATION" | grep "sub-oracle" | head -3
  echo "$out" | grep "^INCONCLUSIVE" | cut -c1-300
  [ $rc = 1 ] && caught="$caught $prop"
done
git checkout -q -- src
D="/verif/seeded/$P-${STORE:-$L}"
mkdir -p "$D"
cp "$S/patch.diff" "$D/patch.diff"; cp "$S/demo.py" "$D/demo.py"
/venv/bin/python - "$S/meta.json" "$D/meta.json" "$clean_rc" "$seeded_rc" "$suite" "$caught" "${TIER:-quick}" <<'P'
import json,sys
src,dst,c,s,suite,caught,tier=sys.argv[1:8]
try: m=json.load(open(src))
except Exception: m={}
m["confirmed"]={"demo_rc_without_change":int(c),"demo_rc_with_change":int(s),"suite_with_change":suite,
  "ran":"git apply patch.diff in a scratch worktree; PYTHONPATH=<wt>/src python demo.py; tools/suite.sh <wt>; VERIF_REPO=<wt> ./check <prop> --tier "+tier}
m["caught_by"]=caught.split()
json.dump(m,open(dst,"w"),indent=1)
P
