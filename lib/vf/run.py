"""Runner: ./check <ID> [--tier quick|thorough] [--seed N] [--replay file] [--jobs N]

Plans shards (vf.props.<id>.plan), runs each shard in its own worker subprocess
(subprocess + timeout, never multiprocessing.Pool), merges the recorders, classifies
violations against known_findings.json, writes evidence/<ID>.json and decides a
three-valued verdict:  0 held on what was observed / 1 VIOLATION / 2 INCONCLUSIVE.
"""
from __future__ import annotations

import argparse
import hashlib
import importlib
import json
import os
import shutil
import subprocess
import sys
import tempfile
import threading
import time
from collections import Counter

from vf import kf

HOME = os.environ.get("VERIF_HOME", os.path.dirname(os.path.dirname(os.path.dirname(os.path.abspath(__file__)))))
REPO = os.environ.get("VERIF_REPO", "/repo")


def tree_identity() -> dict:
    def git(*a):
        try:
            return subprocess.run(["git", "-C", REPO, *a], capture_output=True, text=True, timeout=60).stdout
        except Exception:
            return ""
    head = git("rev-parse", "HEAD").strip()
    diff = git("diff", "HEAD", "--", "src")
    return {"repo_head": head, "worktree_diff_sha": hashlib.sha1(diff.encode()).hexdigest()[:12] if diff else "clean"}


def load_prop(pid: str):
    return importlib.import_module(f"vf.props.{pid.lower()}")


def run_workers(pid: str, mod, specs: list[dict], jobs: int, tmp: str, tier: str):
    """Run every shard spec in a worker subprocess; returns list of (spec, dump|None, status)."""
    results: list = [None] * len(specs)
    lock = threading.Lock()
    nxt = [0]
    timeout = getattr(mod, "TIMEOUT", {}).get(tier, 3600 if tier == "quick" else 6 * 3600)
    pyflags = list(getattr(mod, "PY_FLAGS", []))

    def work():
        while True:
            with lock:
                i = nxt[0]
                nxt[0] += 1
            if i >= len(specs):
                return
            spec_path = os.path.join(tmp, f"spec{i}.json")
            out_path = os.path.join(tmp, f"out{i}.json")
            with open(spec_path, "w") as f:
                json.dump(specs[i], f)
            cmd = [sys.executable, *pyflags, "-m", "vf.worker", pid, spec_path, out_path, str(i)]
            env = dict(os.environ)
            env["PYTHONHASHSEED"] = "0"
            env["VERIF_SCRATCH"] = os.path.join(tmp, f"w{i}")
            os.makedirs(env["VERIF_SCRATCH"], exist_ok=True)
            status = "ok"
            err_tail = ""
            try:
                p = subprocess.run(cmd, env=env, capture_output=True, text=True, timeout=timeout)
                if p.returncode != 0:
                    status = f"died rc={p.returncode}"
                    err_tail = (p.stderr or "")[-3000:]
            except subprocess.TimeoutExpired:
                status = "watchdog"
            dump = None
            if os.path.exists(out_path):
                try:
                    with open(out_path) as f:
                        dump = json.load(f)
                except Exception as e:  # truncated output
                    status = f"bad-output {e!r}"
            elif status == "ok":
                status = "no-output"
            shutil.rmtree(env["VERIF_SCRATCH"], ignore_errors=True)
            results[i] = (specs[i], dump, status, err_tail)

    threads = [threading.Thread(target=work) for _ in range(max(1, min(jobs, len(specs))))]
    for t in threads:
        t.start()
    for t in threads:
        t.join()
    return results


def merge(results):
    agg = {
        "evaluations": 0, "keys": set(), "bulk_distinct": 0, "counters": Counter(), "hists": {},
        "samples": [], "violations": [], "vio_counts": Counter(), "foreign": [], "foreign_counts": Counter(),
        "build_failures": Counter(), "inconclusive": [], "notes": [], "worker_status": Counter(),
        "worker_errors": [],
    }
    for spec, dump, status, err in results:
        agg["worker_status"][status] += 1
        if status != "ok":
            agg["worker_errors"].append({"spec": spec if len(json.dumps(spec)) < 400 else str(spec)[:400], "status": status, "stderr_tail": err[-1500:]})
        if not dump:
            continue
        agg["evaluations"] += dump["evaluations"]
        agg["keys"].update(dump["keys"])
        agg["bulk_distinct"] += dump["bulk_distinct"]
        agg["counters"].update(dump["counters"])
        for k, v in dump["hists"].items():
            agg["hists"].setdefault(k, Counter()).update(v)
        for s in dump["samples"]:
            if len(agg["samples"]) < 8:
                agg["samples"].append(s)
        agg["violations"].extend(dump["violations"])
        agg["vio_counts"].update(dump["vio_counts"])
        agg["foreign"].extend(dump["foreign"])
        agg["foreign_counts"].update(dump["foreign_counts"])
        agg["build_failures"].update(dump["build_failures"])
        for r in dump["inconclusive"]:
            if r not in agg["inconclusive"]:
                agg["inconclusive"].append(r)
        agg["notes"].extend(dump["notes"][:10])
    return agg


def main(argv=None):
    ap = argparse.ArgumentParser()
    ap.add_argument("prop")
    ap.add_argument("--tier", default=os.environ.get("VERIF_TIER", "quick"), choices=["quick", "thorough"])
    ap.add_argument("--seed", type=int, default=int(os.environ.get("VERIF_SEED", "0") or 0))
    ap.add_argument("--jobs", type=int, default=int(os.environ.get("VERIF_JOBS", "0") or 0) or (os.cpu_count() or 4))
    ap.add_argument("--replay")
    ap.add_argument("--no-evidence", action="store_true")
    ap.add_argument("--classes", action="store_true", help="print every violation class with its count (triage)")
    args = ap.parse_args(argv)
    pid = args.prop.upper()
    mod = load_prop(pid)
    t0 = time.time()

    # the code under test must be the working tree
    import numbers_parser
    if not os.path.realpath(numbers_parser.__file__).startswith(os.path.realpath(REPO) + os.sep):
        print(f"INCONCLUSIVE property={pid} reason=numbers_parser imported from {numbers_parser.__file__}, not {REPO}")
        return 2

    tmp = tempfile.mkdtemp(prefix=f"vf-{pid}-")
    try:
        if args.replay:
            with open(args.replay) as f:
                rp = json.load(f)
            specs = [{"replay": rp.get("case"), "seed": rp.get("seed", 0), "tier": rp.get("tier", "quick"),
                      **({"tz": rp["case"]["tz"]} if isinstance(rp.get("case"), dict) and rp["case"].get("tz") else {})}]
        else:
            specs = mod.plan(args.tier, args.seed)
            if getattr(mod, "SUITE_UNDER_MONITORS", False) and (args.tier == "thorough" or os.environ.get("VERIF_SUITE")):
                # engine "suite under monitors": the unedited repository tests with this property's contracts loaded
                specs.append({"part": "suite-under-monitors", "tier": args.tier, "seed": args.seed})
        results = run_workers(pid, mod, specs, args.jobs, tmp, args.tier)
        agg = merge(results)
        entries = kf.load(HOME)
        if getattr(mod, "WORKER_DEATH_IS_VIOLATION", False):
            for spec, dump, status, err in results:
                if status.startswith("died") or status == "no-output":
                    v = {"property": pid, "sub": "worker_died", "fields": {"status": status.split()[0]},
                         "detail": {"spec": spec, "stderr_tail": err[-1500:]}, "case": None, "shard": -1}
                    agg["violations"].append(v)
                    agg["vio_counts"][json.dumps([pid, "worker_died", v["fields"]], sort_keys=True)] += 1

        # ---- classify --------------------------------------------------------------
        known_hits: dict[str, dict] = {}
        unlisted: list[dict] = []
        for v in agg["violations"]:
            e = kf.classify(entries, v)
            if e is not None:
                h = known_hits.setdefault(e["key"], {"entry": e, "witnesses": 0, "example": v})
                h["witnesses"] += 1
            else:
                unlisted.append(v)
        # total counts per class (witness lists are capped per shard)
        total_known = 0
        total_unlisted = 0
        for cls, n in agg["vio_counts"].items():
            prop, sub, fields = json.loads(cls)
            e = kf.classify(entries, {"property": prop, "sub": sub, "fields": fields})
            if e is not None:
                total_known += n
                known_hits.setdefault(e["key"], {"entry": e, "witnesses": 0, "example": None})
                known_hits[e["key"]]["total"] = known_hits[e["key"]].get("total", 0) + n
            else:
                total_unlisted += n

        # ---- V1: re-execute the first unlisted witnesses in a fresh worker ------------
        confirmed: list[dict] = []
        flaky: list[dict] = []
        if unlisted and not args.replay and getattr(mod, "REPLAYABLE", True):
            seen_cls = set()
            todo = []
            for v in unlisted:
                cls = json.dumps([v["sub"], v["fields"]], sort_keys=True)
                if cls in seen_cls or v.get("case") is None:
                    continue
                seen_cls.add(cls)
                todo.append(v)
                if len(todo) >= 8:
                    break
            rspecs = [{"replay": v["case"], "seed": args.seed, "tier": args.tier, **({"tz": v["case"]["tz"]} if isinstance(v.get("case"), dict) and v["case"].get("tz") else {})} for v in todo]
            rres = run_workers(pid, mod, rspecs, args.jobs, tmp, args.tier) if rspecs else []
            for v, (spec, dump, status, err) in zip(todo, rres):
                again = [w for w in (dump or {}).get("violations", []) if w["sub"] == v["sub"]]
                (confirmed if again or status != "ok" else flaky).append(v)
            # witnesses that were not re-executed (no replayable case, or beyond the cap) are reported as they are
            flaky_cls = {json.dumps([v["sub"], v["fields"]], sort_keys=True) for v in flaky}
            tested = {id(v) for v in todo}
            confirmed.extend(v for v in unlisted if id(v) not in tested and json.dumps([v["sub"], v["fields"]], sort_keys=True) not in flaky_cls)
        else:
            confirmed = unlisted[:]

        # ---- floors (V3) and build failures (V9) ---------------------------------------
        inconclusive = list(agg["inconclusive"])
        distinct = len(agg["keys"]) + agg["bulk_distinct"]
        bad_workers = {k: n for k, n in agg["worker_status"].items() if k != "ok"}
        died_is_violation = getattr(mod, "WORKER_DEATH_IS_VIOLATION", False)
        if bad_workers and not died_is_violation:
            inconclusive.append(f"workers not ok: {bad_workers}")
        if not args.replay:
            fl = mod.floors(args.tier) if hasattr(mod, "floors") else {}
            if agg["evaluations"] < fl.get("evaluations", 1):
                inconclusive.append(f"evaluations {agg['evaluations']} < floor {fl.get('evaluations', 1)}")
            if distinct < fl.get("distinct", 2):
                inconclusive.append(f"distinct {distinct} < floor {fl.get('distinct', 2)}")
            for name, n in fl.get("counters", {}).items():
                if agg["counters"].get(name, 0) < n:
                    inconclusive.append(f"must-reach {name}={agg['counters'].get(name, 0)} < {n}")
            for name, n in fl.get("hist_sizes", {}).items():
                have = len(agg["hists"].get(name, {}))
                if have < n:
                    inconclusive.append(f"must-reach distinct {name} classes={have} < {n}")
            nbf = sum(agg["build_failures"].values())
            if nbf and nbf > 0.01 * max(1, agg["evaluations"]):
                inconclusive.append(f"workload construction failed in {nbf} cases: {dict(agg['build_failures'])}")
        if flaky and not confirmed:
            inconclusive.append(f"flaky witness: {len(flaky)} violation(s) did not reproduce in a fresh worker")

        # ---- report ---------------------------------------------------------------------
        os.makedirs(os.path.join(HOME, "replays"), exist_ok=True)
        out_lines = []
        for key, h in sorted(known_hits.items()):
            out_lines.append(f"KNOWN-FINDING: property={pid} {h['entry']['what']} [{key}; {h.get('total', h['witnesses'])} witnesses]")
        replay_paths = []
        if confirmed:
            seen_cls = set()
            n = 0
            for v in confirmed:
                cls = json.dumps([v["sub"], v["fields"]], sort_keys=True)
                if cls in seen_cls:
                    continue
                seen_cls.add(cls)
                path = os.path.join(HOME, "replays", f"{pid}-{args.seed}-{n}.json")
                with open(path, "w") as f:
                    json.dump({"property": pid, "seed": args.seed, "tier": args.tier, "sub": v["sub"], "fields": v["fields"],
                               "detail": v["detail"], "case": v["case"]}, f, indent=1)
                replay_paths.append(path)
                out_lines.append(f"VIOLATION property={pid} replay={path}")
                out_lines.append(f"  sub-oracle={v['sub']} fields={json.dumps(v['fields'], sort_keys=True)[:300]}")
                n += 1
                if n >= 12:
                    break
        for cls, n in list(agg["foreign_counts"].items())[:10]:
            prop, sub, fields = json.loads(cls)
            out_lines.append(f"NOTE foreign-observation property={prop} sub={sub} n={n}")
        if inconclusive and not confirmed:
            out_lines.append(f"INCONCLUSIVE property={pid} reason={'; '.join(inconclusive)[:600]}")

        wall = round(time.time() - t0, 2)
        if confirmed:
            rc = 1
        elif inconclusive:
            rc = 2
        else:
            rc = 0

        # ---- evidence ------------------------------------------------------------------
        if not args.replay and not args.no_evidence:
            rule = mod.rule(args.tier) if hasattr(mod, "rule") else getattr(mod, "RULE", "")
            cov = {
                "evaluations": int(agg["evaluations"]),
                "distinct_nontrivial": int(distinct),
                "rule": rule,
                "samples": agg["samples"] or ["(no sample recorded)"],
                "exhaustive": bool(mod.exhaustive(args.tier)) if hasattr(mod, "exhaustive") else False,
                "monitor_counters": dict(sorted(agg["counters"].items())),
                "class_histograms": {k: dict(sorted(v.items(), key=lambda kv: -kv[1])[:40]) for k, v in agg["hists"].items()},
                "class_histogram_sizes": {k: len(v) for k, v in agg["hists"].items()},
                "shards": len(specs),
                "worker_status": dict(agg["worker_status"]),
                "known_finding_hits": {k: h.get("total", h["witnesses"]) for k, h in known_hits.items()},
                "violations_known": total_known,
                "violations_unlisted": total_unlisted,
                "build_failures": dict(agg["build_failures"]),
                "foreign_observations": {k: n for k, n in list(agg["foreign_counts"].items())[:20]},
                "verdict": {0: "held-on-observed", 1: "violated", 2: "inconclusive"}[rc],
                "inconclusive_reasons": inconclusive,
                "tree": tree_identity(),
                "notes": agg["notes"][:20],
            }
            if hasattr(mod, "coverage_extra"):
                cov.update(mod.coverage_extra(args.tier, agg))
            ev = {
                "property_id": pid,
                "tier": args.tier,
                "seed": args.seed,
                "level": getattr(mod, "LEVEL", "exploration"),
                "coverage": cov,
                "assumptions": list(getattr(mod, "ASSUMPTIONS", [])),
                "wall_s": wall,
                "violations": int(total_unlisted),
            }
            os.makedirs(os.path.join(HOME, "evidence"), exist_ok=True)
            with open(os.path.join(HOME, "evidence", f"{pid}.json"), "w") as f:
                json.dump(ev, f, indent=1, sort_keys=False)
                f.write("\n")
            # a per-tier copy, so that a later quick run does not erase what the last thorough run observed
            tdir = os.path.join(HOME, "evidence_by_tier", args.tier)
            os.makedirs(tdir, exist_ok=True)
            with open(os.path.join(tdir, f"{pid}.json"), "w") as f:
                json.dump(ev, f, indent=1, sort_keys=False)
                f.write("\n")

        print(f"{pid} tier={args.tier} seed={args.seed} evaluations={agg['evaluations']} distinct={distinct} "
              f"known={total_known} unlisted={total_unlisted} wall={wall}s workers={dict(agg['worker_status'])}")
        interesting = {k: v for k, v in sorted(agg["counters"].items())}
        if interesting:
            print("  monitors: " + ", ".join(f"{k}={v}" for k, v in list(interesting.items())[:40]))
        for w in agg["worker_errors"][:3]:
            print(f"  worker {w['status']}: {w['stderr_tail'][-800:]}")
        for line in out_lines:
            print(line)
        if args.classes:
            for cls, n in sorted(agg["vio_counts"].items(), key=lambda kv: -kv[1]):
                prop, sub, fields = json.loads(cls)
                e = kf.classify(entries, {"property": prop, "sub": sub, "fields": fields})
                print(f"  CLASS n={n} {'known:' + e['key'] if e else 'UNLISTED'} sub={sub} fields={json.dumps(fields, sort_keys=True)}")
        return rc
    finally:
        shutil.rmtree(tmp, ignore_errors=True)


if __name__ == "__main__":
    sys.exit(main())
