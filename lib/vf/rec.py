"""Recorder used inside a worker process.

Everything a workload observes goes through one Recorder: cases executed, distinct
non-trivial case keys, class histograms, monitor (contract) counters, violations with
their structured fields, build failures (V9) and inconclusive reasons.  It is dumped as one
JSON document at the end of the shard; the parent merges the shards.
"""
from __future__ import annotations

import hashlib
import json
import time
from collections import Counter

MAX_WITNESS_PER_CLASS = 6  # per shard; the rest are only counted
MAX_SAMPLES = 6


def _h(key) -> str:
    if not isinstance(key, (str, bytes)):
        key = json.dumps(key, sort_keys=True, default=repr)
    if isinstance(key, str):
        key = key.encode("utf-8", "surrogatepass")
    return hashlib.blake2b(key, digest_size=8).hexdigest()


def jsonable(x, depth=0):
    """Best-effort conversion of witnesses to JSON-serialisable data."""
    if depth > 60:
        return repr(x)
    if x is None or isinstance(x, (bool, int, str)):
        return x
    if isinstance(x, float):
        return x if x == x and x not in (float("inf"), float("-inf")) else repr(x)
    if isinstance(x, (bytes, bytearray)):
        return {"hex": bytes(x).hex()}
    if isinstance(x, (list, tuple, set, frozenset)):
        return [jsonable(v, depth + 1) for v in x]
    if isinstance(x, dict):
        return {str(k): jsonable(v, depth + 1) for k, v in x.items()}
    return repr(x)


class Recorder:
    def __init__(self, prop: str, shard: int = 0):
        self.prop = prop
        self.shard = shard
        self.evaluations = 0
        self.keys: set[str] = set()
        self.bulk_distinct = 0  # distinct by construction (enumerations), not hashed
        self.counters: Counter = Counter()
        self.hists: dict[str, Counter] = {}
        self.samples: list = []
        self.violations: list[dict] = []  # witnesses (capped per class)
        self.vio_counts: Counter = Counter()  # class -> total count
        self.foreign: list[dict] = []
        self.foreign_counts: Counter = Counter()
        self.build_failures: Counter = Counter()
        self.inconclusive_reasons: list[str] = []
        self.notes: list[str] = []
        self.t0 = time.time()

    # -- cases ---------------------------------------------------------------------
    def case(self, key=None, nontrivial: bool = True, n: int = 1):
        self.evaluations += n
        if nontrivial and key is not None:
            self.keys.add(_h(key))

    def bulk(self, evaluations: int, distinct: int):
        """An enumerated block whose cases are distinct by construction."""
        self.evaluations += evaluations
        self.bulk_distinct += distinct

    def sample(self, obj):
        if len(self.samples) < MAX_SAMPLES:
            self.samples.append(jsonable(obj))

    def count(self, name: str, n: int = 1):
        self.counters[name] += n

    def hist(self, name: str, cls, n: int = 1):
        self.hists.setdefault(name, Counter())[str(cls)] += n

    def note(self, text: str):
        if len(self.notes) < 50:
            self.notes.append(text)

    # -- outcomes ------------------------------------------------------------------
    def violation(self, sub: str, fields: dict | None = None, detail=None, case=None, owner: str | None = None):
        """sub: violated sub-oracle; fields: the discriminating, *stable* parameters used
        by the known-finding classifier; detail: free witness data; case: what --replay
        needs to re-execute.  owner: property that owns the monitor (foreign if != prop)."""
        fields = jsonable(fields or {})
        rec = {
            "property": owner or self.prop,
            "sub": sub,
            "fields": fields,
            "detail": jsonable(detail),
            "case": jsonable(case),
            "shard": self.shard,
        }
        cls = json.dumps([rec["property"], sub, fields], sort_keys=True)
        if owner and owner != self.prop:
            self.foreign_counts[cls] += 1
            if self.foreign_counts[cls] <= 2:
                self.foreign.append(rec)
            return
        self.vio_counts[cls] += 1
        if self.vio_counts[cls] <= MAX_WITNESS_PER_CLASS:
            self.violations.append(rec)

    def build_failure(self, what: str):
        self.build_failures[what] += 1

    def inconclusive(self, reason: str):
        if reason not in self.inconclusive_reasons:
            self.inconclusive_reasons.append(reason)

    # -- dump ----------------------------------------------------------------------
    def dump(self) -> dict:
        return {
            "shard": self.shard,
            "evaluations": self.evaluations,
            "keys": sorted(self.keys),
            "bulk_distinct": self.bulk_distinct,
            "counters": dict(self.counters),
            "hists": {k: dict(v) for k, v in self.hists.items()},
            "samples": self.samples,
            "violations": self.violations,
            "vio_counts": dict(self.vio_counts),
            "foreign": self.foreign,
            "foreign_counts": dict(self.foreign_counts),
            "build_failures": dict(self.build_failures),
            "inconclusive": self.inconclusive_reasons,
            "notes": self.notes,
            "wall_s": round(time.time() - self.t0, 3),
        }
