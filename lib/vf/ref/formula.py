"""Reference side of C08/C09 (DESIGN A.4-A.6): expression trees, their serialisation to the
stored post-fix node array the way Numbers stores it (conventions taken from the fixtures, not
from the library's experimental writer), an independent precedence-climbing parser of the
renderer's output language, the union-semantics denotation of reference nodes and a resolver
of printed reference text against a document's own names.

Trees (tuples):
 ('num', Decimal>=0) ('str', s) ('bool', b, 'boolean'|'token') ('date', (y,m,d)) ('ref', (row, col))
 ('bin', op, l, r) ('neg', x) ('pct', x) ('paren', [x...]) ('fn', name, [arg|None...], id) ('arr', [[lit...]...])
"""
from __future__ import annotations

import re
from datetime import datetime
from decimal import Decimal

BIN = {"+": "ADDITION_NODE", "-": "SUBTRACTION_NODE", "*": "MULTIPLICATION_NODE", "/": "DIVISION_NODE", "^": "POWER_NODE", "&": "CONCATENATION_NODE",
       "=": "EQUAL_TO_NODE", "<>": "NOT_EQUAL_TO_NODE", "<": "LESS_THAN_NODE", ">": "GREATER_THAN_NODE", "<=": "LESS_THAN_OR_EQUAL_TO_NODE",
       ">=": "GREATER_THAN_OR_EQUAL_TO_NODE"}
PREC = {"=": 1, "<>": 1, "<": 1, ">": 1, "<=": 1, ">=": 1, "&": 2, "+": 3, "-": 3, "*": 4, "/": 4, "^": 5}
INTHI = 0x3040000000000000
ROWMAX = 0x7FFFFFFF
COLMAX = 0x7FFF

NUMS = [0, 1, 2, 10, 255, 10 ** 15, 10 ** 16, 123456789012345, Decimal("0.1"), Decimal("1.5"), Decimal("0.00001"), Decimal("1.25e16"), Decimal("1e16"), Decimal("1e-7"),
        Decimal("123456.789"), Decimal("1.5e16"), Decimal("2.5e-9"), Decimal("1e22"), Decimal("1.234e21"), Decimal("0.5"), Decimal("99.99"), Decimal("1e15"), Decimal("3.14159265358979"),
        # integers a double cannot hold: the stored literal is the integer (decimal128 coefficient), the double beside it only approximates it
        2 ** 53 + 1, 12345678901234567, 2 ** 62 + 1, 999999999999999999,
        # doubles that need 16 or 17 significant digits to be named (the literal is the stored double, not a rounded one)
        Decimal("2.0"), Decimal("10.0"), Decimal("255.00"), Decimal("1.0"), Decimal("0.50"),
        Decimal("3.141592653589793"), Decimal("2.718281828459045"), Decimal("0.30000000000000004"), Decimal("0.7000000000000001"), Decimal("1234567.8901234567")]
STRS = ["", "a", 'a"b', '""', "x,y", "(z)", "1+1", "it's", "{", "é😀", " sp ", "a;b", "}", "=", "A1", "TRUE", "line\nbreak", "%"]


# ------------------------------------------------------------------------------ generation
def gen(rng, depth, function_ids, maxref=5):
    k = rng.random()
    if depth == 0 or k < 0.3:
        j = rng.random()
        if j < 0.35:
            return ("num", Decimal(rng.choice(NUMS)))
        if j < 0.55:
            return ("str", rng.choice(STRS))
        if j < 0.65:
            return ("bool", rng.random() < 0.5, rng.choice(["boolean", "token"]))
        if j < 0.7:
            d = (rng.randint(1899, 2040), rng.randint(1, 12), rng.randint(1, 28))
            if rng.random() < .4:
                d += (rng.randint(0, 23), rng.randint(0, 59))  # a date literal may carry a time of day; its text names the day
            return ("date", d)
        return ("ref", (rng.randint(0, maxref), rng.randint(0, maxref)))
    if k < 0.6:
        return ("bin", rng.choice(list(BIN)), gen(rng, depth - 1, function_ids, maxref), gen(rng, depth - 1, function_ids, maxref))
    if k < 0.68:
        return ("neg", gen(rng, depth - 1, function_ids, maxref))
    if k < 0.73:
        return ("pct", gen(rng, depth - 1, function_ids, maxref))
    if k < 0.8:
        return ("paren", [gen(rng, depth - 1, function_ids, maxref) for _ in range(rng.randint(1, 3))])
    if k < 0.93:
        fid, name = rng.choice(function_ids)
        n = rng.randint(0, 4)
        return ("fn", name, [None if rng.random() < 0.12 else gen(rng, depth - 1, function_ids, maxref) for _ in range(n)], fid)
    rows, cols = rng.randint(1, 3), rng.randint(1, 3)

    def lit():
        j = rng.random()
        if j < .5:
            return ("num", Decimal(rng.choice(NUMS)))
        if j < .85:
            return ("str", rng.choice(STRS))
        return ("bool", rng.random() < .5, "boolean")
    return ("arr", [[lit() for _ in range(cols)] for _ in range(rows)])


def norm(t):
    """Insert explicit paren (LIST_NODE) nodes wherever conventional precedence and
    left-associativity require one, around a binary/unary operand of unary minus / percent and
    around a unary operand of '^' - so no tree depends on a dialect-specific convention."""
    k = t[0]
    if k == "bin":
        op = t[1]
        left, right = norm(t[2]), norm(t[3])

        def wrap(ch, side):
            if ch[0] == "bin":
                pc, pp = PREC[ch[1]], PREC[op]
                if pc < pp or (pc == pp and side == "r") or (pc == pp and pp in (1, 5)):
                    return ("paren", [ch])
            if ch[0] == "neg" and op == "^":
                return ("paren", [ch])  # -2^2 and 2^-2: only ^ is dialect-dependent around a unary minus; a+-b, a*-b are not
            if ch[0] == "pct" and op == "^":
                return ("paren", [ch])
            return ch
        return ("bin", op, wrap(left, "l"), wrap(right, "r"))
    if k in ("neg", "pct"):
        x = norm(t[1])
        if x[0] in ("bin", "neg") or (k == "neg" and x[0] == "pct") or (k == "pct" and x[0] == "neg"):
            x = ("paren", [x])
        return (k, x)
    if k == "paren":
        return ("paren", [norm(x) for x in t[1]])
    if k == "fn":
        return ("fn", t[1], [None if a is None else norm(a) for a in t[2]], t[3])
    return t


def depth_of(t):
    k = t[0]
    if k == "bin":
        return 1 + max(depth_of(t[2]), depth_of(t[3]))
    if k in ("neg", "pct"):
        return 1 + depth_of(t[1])
    if k == "paren":
        return 1 + max(depth_of(x) for x in t[1])
    if k == "fn":
        return 1 + max([depth_of(a) for a in t[2] if a is not None] + [0])
    return 0


def kinds_of(t, out=None):
    out = set() if out is None else out
    k = t[0]
    out.add(k if k != "bin" else "bin:" + t[1])
    if k == "bin":
        kinds_of(t[2], out)
        kinds_of(t[3], out)
    elif k in ("neg", "pct"):
        kinds_of(t[1], out)
    elif k == "paren":
        for x in t[1]:
            kinds_of(x, out)
    elif k == "fn":
        for a in t[2]:
            if a is not None:
                kinds_of(a, out)
            else:
                out.add("empty-arg")
    elif k == "arr":
        out.add("arr2d" if len(t[1]) > 1 else "arr1d")
    return out


# ------------------------------------------------------------------------------ serialisation
def ser(t, host, out, T):
    """Append the post-fix nodes of tree t (hosted at cell `host`) to out.  T = ASTNodeArrayArchive."""
    N = T.ASTNodeArchive
    k = t[0]
    if k == "num":
        v = t[1]
        v = Decimal(v)
        if v == v.to_integral_value() and abs(v) < 2 ** 63 and v.as_tuple().exponent >= 0:
            out.append(N(AST_node_type=T.NUMBER_NODE, AST_number_node_number=float(v), AST_number_node_decimal_low=int(v), AST_number_node_decimal_high=INTHI))
        else:
            # a literal typed with trailing zeros ("2.0", "255.00") keeps them: coefficient 20 with exponent -1, not the integer 2
            sign, digits, exp = (v if v.as_tuple().exponent < 0 and v == v.to_integral_value() else v.normalize()).as_tuple()
            coeff = int("".join(map(str, digits)))
            out.append(N(AST_node_type=T.NUMBER_NODE, AST_number_node_number=float(v), AST_number_node_decimal_low=coeff & (2 ** 64 - 1),
                         AST_number_node_decimal_high=((0x1820 + exp) << 49) | (coeff >> 64)))
    elif k == "str":
        out.append(N(AST_node_type=T.STRING_NODE, AST_string_node_string=t[1]))
    elif k == "bool":
        if len(t) > 2 and t[2] == "token":
            out.append(N(AST_node_type=T.TOKEN_NODE, AST_token_node_boolean=t[1]))
        else:
            out.append(N(AST_node_type=T.BOOLEAN_NODE, AST_boolean_node_boolean=t[1]))
    elif k == "date":
        out.append(N(AST_node_type=T.DATE_NODE, AST_date_node_dateNum=(datetime(*t[1]) - datetime(2001, 1, 1)).total_seconds()))
    elif k == "ref":
        out.append(cellref(T, host, t[1][0], t[1][1], False, False, None))
    elif k == "node":  # a pre-built reference node (C09)
        out.append(t[1])
    elif k == "bin":
        ser(t[2], host, out, T)
        ser(t[3], host, out, T)
        out.append(N(AST_node_type=getattr(T, BIN[t[1]])))
    elif k == "neg":
        ser(t[1], host, out, T)
        out.append(N(AST_node_type=T.NEGATION_NODE))
    elif k == "pct":
        ser(t[1], host, out, T)
        out.append(N(AST_node_type=T.PERCENT_NODE))
    elif k == "paren":
        for x in t[1]:
            ser(x, host, out, T)
        out.append(N(AST_node_type=T.LIST_NODE, AST_list_node_numArgs=len(t[1])))
    elif k == "fn":
        for a in t[2]:
            if a is None:
                out.append(N(AST_node_type=T.EMPTY_ARGUMENT_NODE))
            else:
                ser(a, host, out, T)
        out.append(N(AST_node_type=T.FUNCTION_NODE, AST_function_node_index=t[3], AST_function_node_numArgs=len(t[2])))
    elif k == "arr":
        for row in t[1]:
            for x in row:
                ser(x, host, out, T)
        out.append(N(AST_node_type=T.ARRAY_NODE, AST_array_node_numRow=len(t[1]), AST_array_node_numCol=len(t[1][0])))
    else:
        raise ValueError(k)


def cellref(T, host, r, c, row_abs, col_abs, uuid):
    n = T.ASTNodeArchive(AST_node_type=T.CELL_REFERENCE_NODE)
    n.AST_row.row = r if row_abs else r - host[0]
    n.AST_row.absolute = row_abs
    n.AST_column.column = c if col_abs else c - host[1]
    n.AST_column.absolute = col_abs
    if uuid is not None:
        n.AST_cross_table_reference_extra_info.table_id.CopyFrom(uuid)
    return n


def _axis_entries(b, e, babs, eabs, host):
    """A.4 serialisation of one axis with end-points b <= e."""
    rel, ab = [], []
    if not babs and not eabs:
        rel.append((b - host, e - host))
    elif babs and eabs:
        ab.append((b, e))
    elif b == e:
        # one index named twice, once absolutely and once relatively (for example $3:3): both sets hold it
        ab.append((b, b))
        rel.append((b - host, b - host))
    elif babs:
        ab.append((b, b))
        rel.append((b + 1 - host, e - host))
    else:
        rel.append((b - host, e - 1 - host))
        ab.append((e, e))
    return rel, ab


def tract(T, host, r0, r1, c0, c1, flags, uuid):
    """COLON_TRACT_NODE for rows r0..r1 (None = whole axis) x cols c0..c1; flags = (begin_row_abs, end_row_abs, begin_col_abs, end_col_abs)."""
    rb, re_, cb, ce = flags
    n = T.ASTNodeArchive(AST_node_type=T.COLON_TRACT_NODE)
    ct = n.AST_colon_tract
    ct.preserve_rectangular = True

    def fill(rel_f, abs_f, b, e, ba, ea, h, mx):
        if b is None:
            x = abs_f.add()
            x.range_begin = mx
            return
        rel, ab = _axis_entries(b, e, ba, ea, h)
        for (x0, x1) in rel:
            x = rel_f.add()
            x.range_begin = x0
            if x1 != x0:
                x.range_end = x1
        for (x0, x1) in ab:
            x = abs_f.add()
            x.range_begin = x0
            if x1 != x0:
                x.range_end = x1
    fill(ct.relative_row, ct.absolute_row, r0, r1, rb, re_, host[0], ROWMAX)
    fill(ct.relative_column, ct.absolute_column, c0, c1, cb, ce, host[1], COLMAX)
    sb = n.AST_sticky_bits
    sb.begin_row_is_absolute = rb
    sb.end_row_is_absolute = re_
    sb.begin_column_is_absolute = cb
    sb.end_column_is_absolute = ce
    if uuid is not None:
        n.AST_cross_table_reference_extra_info.table_id.CopyFrom(uuid)
    return n


# ------------------------------------------------------------------------------ stored denotation
def _axis_union(rel, absl, host, mx):
    """A.4: union of the relative index sets shifted by the host and the absolute ones; mx = whole axis."""
    S = set()
    whole = False
    for e in rel:
        b = e.range_begin
        en = e.range_end if e.HasField("range_end") else b
        S.update(range(host + b, host + en + 1))
    for e in absl:
        b = e.range_begin
        en = e.range_end if e.HasField("range_end") else b
        if b == mx:
            whole = True
            continue
        S.update(range(b, en + 1))
    if whole and not S:
        return None
    if not S:
        raise ValueError("empty axis")
    lo, hi = min(S), max(S)
    if S != set(range(lo, hi + 1)):
        raise ValueError(f"non-contiguous {sorted(S)[:8]}")
    return (lo, hi)


def denote(node, host, type_name):
    """-> (rows (lo,hi)|None, cols (lo,hi)|None, (brow_abs, erow_abs, bcol_abs, ecol_abs))."""
    if type_name == "COLON_TRACT_NODE" or node.HasField("AST_colon_tract"):
        ct, sb = node.AST_colon_tract, node.AST_sticky_bits
        rows = _axis_union(ct.relative_row, ct.absolute_row, host[0], ROWMAX)
        cols = _axis_union(ct.relative_column, ct.absolute_column, host[1], COLMAX)
        return rows, cols, (sb.begin_row_is_absolute, sb.end_row_is_absolute, sb.begin_column_is_absolute, sb.end_column_is_absolute)
    has_r, has_c = node.HasField("AST_row"), node.HasField("AST_column")
    r = (node.AST_row.row if node.AST_row.absolute else host[0] + node.AST_row.row) if has_r else None
    c = (node.AST_column.column if node.AST_column.absolute else host[1] + node.AST_column.column) if has_c else None
    ra, ca = bool(has_r and node.AST_row.absolute), bool(has_c and node.AST_column.absolute)
    return (None if r is None else (r, r)), (None if c is None else (c, c)), (ra, ra, ca, ca)


# ------------------------------------------------------------------------------ parser of the output language
TOK = re.compile(r'\s*(?:(?P<num>\d+\.?\d*(?:[eE][+-]?\d+)?|\.\d+)|(?P<str>"(?:[^"]|"")*")|(?P<op><>|<=|>=|≥|≤|≠|[-+*/^&=<>×÷%])|(?P<name>[A-Za-z_][A-Za-z0-9_.]*)|(?P<p>[(){},;]))')
GLY = {"×": "*", "÷": "/", "≥": ">=", "≤": "<=", "≠": "<>"}


class ParseError(Exception):
    pass


class Parser:
    def __init__(self, text):
        self.toks = []
        pos = 0
        while pos < len(text):
            m = TOK.match(text, pos)
            if not m or m.end() == pos:
                raise ParseError(f"lex error at {pos}: {text[pos:pos + 12]!r}")
            pos = m.end()
            kind = m.lastgroup
            self.toks.append((kind, m.group(kind)))
        self.i = 0

    def peek(self):
        return self.toks[self.i] if self.i < len(self.toks) else (None, None)

    def eat(self):
        if self.i >= len(self.toks):
            raise ParseError("unexpected end")
        t = self.toks[self.i]
        self.i += 1
        return t

    def expr(self, minp=1):
        left = self.unary()
        while True:
            k, v = self.peek()
            op = GLY.get(v, v)
            if k == "op" and op in PREC and PREC[op] >= minp:
                self.eat()
                right = self.expr(PREC[op] + 1)
                left = ("bin", op, left, right)
            else:
                return left

    def unary(self):
        k, v = self.peek()
        if k == "op" and v == "-":
            self.eat()
            return ("neg", self.unary())
        x = self.primary()
        while self.peek() == ("op", "%"):
            self.eat()
            x = ("pct", x)
        return x

    def primary(self):
        k, v = self.eat()
        if k == "num":
            return ("num", Decimal(v))
        if k == "str":
            return ("str", v[1:-1].replace('""', '"'))
        if k == "p" and v == "(":
            items = [self.expr()]
            while self.peek() == ("p", ","):
                self.eat()
                items.append(self.expr())
            if self.eat() != ("p", ")"):
                raise ParseError("expected )")
            return ("paren", items)
        if k == "p" and v == "{":
            rows = [[self.expr()]]
            while True:
                t = self.eat()
                if t == ("p", ","):
                    rows[-1].append(self.expr())
                elif t == ("p", ";"):
                    rows.append([self.expr()])
                elif t == ("p", "}"):
                    break
                else:
                    raise ParseError("array")
            return ("arr", rows)
        if k == "name":
            if self.peek() == ("p", "("):
                self.eat()
                args = []
                if self.peek() == ("p", ")"):
                    self.eat()
                    return ("fn", v, args)
                while True:
                    if self.peek() in (("p", ","), ("p", ")")):
                        args.append(None)
                    else:
                        args.append(self.expr())
                    t = self.eat()
                    if t == ("p", ")"):
                        break
                    if t != ("p", ","):
                        raise ParseError(f"expected , got {t}")
                return ("fn", v, args)
            if v in ("TRUE", "FALSE"):
                return ("bool", v == "TRUE")
            m = re.fullmatch(r"([A-Z]+)(\d+)", v)
            if m:
                col = 0
                for ch in m.group(1):
                    col = col * 26 + ord(ch) - 64
                return ("ref", (int(m.group(2)) - 1, col - 1))
        raise ParseError(f"unexpected {k} {v!r}")


def parse(text):
    p = Parser(text)
    t = p.expr()
    if p.i != len(p.toks):
        raise ParseError("trailing " + str(p.toks[p.i:p.i + 3]))
    return t


def _date_shaped(t):
    """DATE(y,m,d) of three whole-number literals: the text a date literal prints as. A function node of that shape and a
    date literal have the same text, so both sides of the comparison are taken to the literal (a quotient, applied to the
    expected and the parsed tree alike); DATE(1.5,1,1) or DATE(0,13,1) can only be a function call and stays one."""
    if not (t[1] == "DATE" and len(t[2]) == 3 and all(a and a[0] == "num" and Decimal(a[1]) == int(Decimal(a[1])) for a in t[2])):
        return False
    y, m, d = (int(Decimal(a[1])) for a in t[2])
    return 1 <= y <= 9999 and 1 <= m <= 12 and 1 <= d <= 31  # what a date literal can print; anything else is a call


def strip(t):
    """Parsed tree -> comparison form (DATE(y,m,d) of literals is a date literal)."""
    k = t[0]
    if k == "fn":
        if _date_shaped(t):
            return ("date", tuple(int(a[1]) for a in t[2]))
        return ("fn", t[1], [None if a is None else strip(a) for a in t[2]])
    if k == "bin":
        return ("bin", t[1], strip(t[2]), strip(t[3]))
    if k in ("neg", "pct"):
        return (k, strip(t[1]))
    if k == "paren":
        return ("paren", [strip(x) for x in t[1]])
    if k == "arr":
        return ("arr", [[strip(x) for x in r] for r in t[1]])
    return t


def expect(t):
    """Generated tree -> comparison form."""
    k = t[0]
    if k == "fn":
        if _date_shaped(t):
            return ("date", tuple(int(Decimal(a[1])) for a in t[2]))
        args = [None if a is None else expect(a) for a in t[2]]
        if args == [None]:
            args = []  # F(<empty>) prints as F(): no text can tell the two apart
        return ("fn", t[1], args)
    if k == "bin":
        return ("bin", t[1], expect(t[2]), expect(t[3]))
    if k in ("neg", "pct"):
        return (k, expect(t[1]))
    if k == "paren":
        return ("paren", [expect(x) for x in t[1]])
    if k == "arr":
        return ("arr", [[expect(x) for x in r] for r in t[1]])
    if k == "bool":
        return ("bool", t[1])
    if k == "date":
        return ("date", tuple(t[1][:3]))
    return t


def first_difference(a, b, path=""):
    """-> (path, kind) of the first structural difference between two comparison-form trees."""
    if a is None or b is None:
        return (path, "empty-arg") if a != b else None
    if a[0] != b[0]:
        return (path, f"{a[0]}!={b[0]}")
    k = a[0]
    if k == "bin":
        if a[1] != b[1]:
            return (path, "operator")
        return first_difference(a[2], b[2], path + "L") or first_difference(a[3], b[3], path + "R")
    if k in ("neg", "pct"):
        return first_difference(a[1], b[1], path + "u")
    if k == "paren":
        if len(a[1]) != len(b[1]):
            return (path, "list-length")
        for i, (x, y) in enumerate(zip(a[1], b[1])):
            d = first_difference(x, y, path + f"p{i}")
            if d:
                return d
        return None
    if k == "fn":
        if a[1] != b[1]:
            return (path, "function-name")
        if len(a[2]) != len(b[2]):
            return (path, "arity")
        for i, (x, y) in enumerate(zip(a[2], b[2])):
            d = first_difference(x, y, path + f"a{i}")
            if d:
                return d
        return None
    if k == "arr":
        if [len(r) for r in a[1]] != [len(r) for r in b[1]]:
            return (path, "array-shape")
        for i, (ra, rb) in enumerate(zip(a[1], b[1])):
            for j, (x, y) in enumerate(zip(ra, rb)):
                d = first_difference(x, y, path + f"e{i}.{j}")
                if d:
                    return d
        return None
    if a != b:
        return (path, "literal:" + k)
    return None


# ------------------------------------------------------------------------------ reference text -> denotation (A.5)
def col_idx(sx):
    c = 0
    for ch in sx:
        c = c * 26 + ord(ch) - 64
    return c - 1


def resolve(doc_names, host_tid, text, labels):
    """doc_names: [(sheet_name, [(table_name, tid)...])...]; labels: tid -> ({row_idx: name}, {col_idx: name}).
    -> ('ok', [candidate tids], rows|None, cols|None, flags, used_label: bool, qualifiers) or (reason, ...)"""
    parts = text.split("::")
    if len(parts) > 3:
        return ("unparsable", "too many ::")
    coord = parts[-1]
    quals = parts[:-1]
    host_sheet = [s for s, ts in doc_names if any(t == host_tid for _, t in ts)][0]
    if not quals:
        cands, scope = [host_tid], "host"
    elif len(quals) == 1:
        cands = [t for s, ts in doc_names if s == host_sheet for n, t in ts if n == quals[0]]
        if not cands:
            cands = [t for s, ts in doc_names for n, t in ts if n == quals[0]]
        scope = "table"
    else:
        cands = [t for s, ts in doc_names if s == quals[0] for n, t in ts if n == quals[1]]
        scope = "table"
    m = re.fullmatch(r"(\$?)([A-Z]+)(\$?)(\d+)(?::(\$?)([A-Z]+)(\$?)(\d+))?", coord)
    if m:
        c0, r0 = col_idx(m.group(2)), int(m.group(4)) - 1
        if m.group(6):
            c1, r1 = col_idx(m.group(6)), int(m.group(8)) - 1
            fl = (m.group(3) == "$", m.group(7) == "$", m.group(1) == "$", m.group(5) == "$")
        else:
            c1, r1 = c0, r0
            fl = (m.group(3) == "$", m.group(3) == "$", m.group(1) == "$", m.group(1) == "$")
        return ("ok", cands, (r0, r1), (c0, c1), fl, False, quals)
    m = re.fullmatch(r"(\$?)(\d+):(\$?)(\d+)", coord)
    if m:
        return ("ok", cands, (int(m.group(2)) - 1, int(m.group(4)) - 1), None, (m.group(1) == "$", m.group(3) == "$", False, False), False, quals)
    all_label_names = {n for tid in labels for d in labels[tid] for n in d.values()}
    m = re.fullmatch(r"(\$?)([A-Z]+)(?::(\$?)([A-Z]+))?", coord)
    if m and m.group(2) not in all_label_names and (not m.group(4) or m.group(4) not in all_label_names):
        c0 = col_idx(m.group(2))
        c1 = col_idx(m.group(4)) if m.group(4) else c0
        ea = (m.group(3) == "$") if m.group(4) else (m.group(1) == "$")
        return ("ok", cands, None, (c0, c1), (False, False, m.group(1) == "$", ea), False, quals)
    m = re.fullmatch(r"(\$?)('(?:[^']|'')*'|[^:$']+)(?::(\$?)('(?:[^']|'')*'|[^:$']+))?", coord)
    if not m:
        return ("unparsable", coord)

    def unq(x):
        return x[1:-1].replace("''", "'") if x and x.startswith("'") else x
    a = unq(m.group(2))
    b = unq(m.group(4)) if m.group(4) else a
    # the library writes the '$' of an absolute label inside the quotes ('$a+b'); both placements are accepted
    a_abs = m.group(1) == "$"
    b_abs = ((m.group(3) or "") == "$") if m.group(4) else a_abs
    if m.group(2).startswith("'") and a.startswith("$"):
        a, a_abs = a[1:], True
    if m.group(4) and m.group(4).startswith("'") and b.startswith("$"):
        b, b_abs = b[1:], True
    if not m.group(4):
        b, b_abs = a, a_abs

    def hits(name):
        """All header labels equal to `name`, with the rank of the scope they were found in."""
        if scope == "table":
            pools = [cands]
        else:
            pools = [[host_tid], [t for s, ts in doc_names if s == host_sheet for _, t in ts], [t for s, ts in doc_names for _, t in ts]]
        out = []
        seen = set()
        for rank, pool in enumerate(pools):
            for tid in pool:
                for ax, dct in enumerate(labels.get(tid, ({}, {}))):
                    # a label that occurs more than once on its own table axis names nothing (it cannot be referenced at all)
                    if list(dct.values()).count(name) != 1:
                        continue
                    for i, nm in dct.items():
                        if nm == name and (tid, ax, i) not in seen:
                            seen.add((tid, ax, i))
                            out.append((rank, tid, ax, i))
        return out
    ha, hb = hits(a), hits(b)
    if not ha or not hb:
        return ("label-unresolved", a, b)
    # a span is resolved jointly: both ends lie on the same axis of the same table
    pairs = [(max(x[0], y[0]), x[1], x[2], x[3], y[3]) for x in ha for y in hb if x[1] == y[1] and x[2] == y[2]]
    if not pairs:
        return ("label-mixed", a, b)
    best = min(p_[0] for p_ in pairs)
    pairs = [p_ for p_ in pairs if p_[0] == best]
    if len(pairs) > 1:
        axes = {p_[2] for p_ in pairs}
        tabs_ = {p_[1] for p_ in pairs}
        return ("label-ambiguous", a, b, "cross-axis" if len(axes) > 1 and len(tabs_) == 1 else "same-axis" if len(tabs_) == 1 else "several-tables")
    _, tid, ax, ia, ib = pairs[0]
    if ax == 0:
        return ("ok", [tid], (ia, ib), None, (a_abs, b_abs, False, False), True, quals)
    return ("ok", [tid], None, (ia, ib), (False, False, a_abs, b_abs), True, quals)
