"""Saved-package reader, structural validator (C07) and layout rewriter (C06).

Opens a .numbers file (zip) or package folder with zipfile + ref/iwa.py, parses every message
with the generated classes and works on the decoded messages.  It never calls the library's
own container/model code.
"""
from __future__ import annotations

import io
import os
import struct
import zipfile
from array import array
from collections import Counter

from vf.ref import cellrec, iwa


class Obj:
    __slots__ = ("ident", "member", "msg", "raw", "info", "extra")

    def __init__(self, ident, member, msg, raw, info, extra):
        self.ident, self.member, self.msg, self.raw, self.info, self.extra = ident, member, msg, raw, info, extra


class Package:
    """members: ordered {name: bytes} incl. non-archive files; objs: {id: Obj}."""

    def __init__(self):
        self.members: dict[str, bytes] = {}
        self.objs: dict[int, Obj] = {}
        self.dup_ids: list[int] = []
        self.undecodable: list[tuple[str, str]] = []
        self.segments: dict[str, list] = {}  # member -> [(ArchiveInfo, [message bytes])]
        self.is_package = False
        self.compress: dict[str, int] = {}


def _read_members(path):
    """-> (ordered dict name->bytes with Index.zip expanded as 'Index/...', is_package, compress types)"""
    members = {}
    comp = {}

    def from_zip(zf, prefix=""):
        for zi in zf.infolist():
            if zi.filename.endswith("/"):
                continue
            b = zf.read(zi.filename)
            if zi.filename.lower().endswith("index.zip"):
                from_zip(zipfile.ZipFile(io.BytesIO(b)), prefix + zi.filename[: -len("Index.zip")])
            else:
                members[prefix + zi.filename] = b
                comp[prefix + zi.filename] = zi.compress_type
    if os.path.isdir(path):
        for root, _, files in os.walk(path):
            for fn in sorted(files):
                full = os.path.join(root, fn)
                rel = os.path.relpath(full, path)
                with open(full, "rb") as f:
                    b = f.read()
                if fn.lower() == "index.zip":
                    from_zip(zipfile.ZipFile(io.BytesIO(b)), os.path.dirname(rel) + "/" if os.path.dirname(rel) else "")
                else:
                    members[rel] = b
                    comp[rel] = zipfile.ZIP_STORED
        return members, True, comp
    from_zip(zipfile.ZipFile(path))
    return members, False, comp


def load(path) -> Package:
    from numbers_parser.generated.mapping import ID_NAME_MAP
    pkg = Package()
    pkg.members, pkg.is_package, pkg.compress = _read_members(path)
    for name, b in pkg.members.items():
        if not name.endswith(".iwa"):
            continue
        try:
            segs = iwa.decode(b)
        except Exception as e:  # noqa: BLE001
            pkg.undecodable.append((name, f"{type(e).__name__}: {e}"))
            continue
        pkg.segments[name] = [(ai, msgs) for hdr, ai, msgs in segs]
        for hdr, ai, msgs in segs:
            if not ai.message_infos:
                continue
            cls = ID_NAME_MAP.get(ai.message_infos[0].type)
            if cls is None:
                pkg.undecodable.append((name, f"unknown message type {ai.message_infos[0].type}"))
                continue
            try:
                msg = cls.FromString(msgs[0])
            except Exception as e:  # noqa: BLE001
                pkg.undecodable.append((name, f"message {ai.identifier}: {type(e).__name__}"))
                continue
            if ai.identifier in pkg.objs:
                pkg.dup_ids.append(ai.identifier)
            pkg.objs[ai.identifier] = Obj(ai.identifier, name, msg, msgs[0], ai, msgs[1:])
    return pkg


def refs_of(msg, path=""):
    """Every TSP.Reference inside a message: [(field path, target id)]."""
    out = []
    for fd, val in msg.ListFields():
        if fd.type != fd.TYPE_MESSAGE:
            continue
        rep = fd.label == fd.LABEL_REPEATED if hasattr(fd, "label") else hasattr(val, "__len__")
        items = list(val) if rep else [val]
        for it in items:
            if fd.message_type.full_name == "TSP.Reference":
                out.append((path + fd.name, it.identifier))
            elif hasattr(it, "ListFields"):
                out += refs_of(it, path + fd.name + ".")
    return out


def metadata(pkg):
    for o in pkg.objs.values():
        if type(o.msg).__name__ == "PackageMetadata":
            return o.msg
    return None


# =========================================================================================
# validator (C07)
def validate(pkg: Package, src: Package | None, pivot_tables=()):
    """-> list of (rule, fields, detail).  src: the package the document was loaded from (None = nothing to compare)."""
    errs = []
    S = src.objs if src is not None else {}
    def norm(n):
        return n[n.index("Index/"):] if "Index/" in n else n
    src_bytes = {norm(n): b for n, b in src.members.items()} if src is not None else {}
    for name, why in pkg.undecodable:
        if src_bytes.get(norm(name)) == pkg.members.get(name):
            continue  # carried over byte for byte from the source: not something the save introduced
        errs.append(("archive_undecodable", {"what": why.split(":")[0][:30]}, {"member": name, "why": why}))
    if pkg.dup_ids:
        errs.append(("identifier_not_unique", {}, {"ids": pkg.dup_ids[:5]}))
    meta = metadata(pkg)
    if meta is None:
        errs.append(("no_package_metadata", {}, {}))
        return errs
    new_ids = [i for i in pkg.objs if i not in S]
    if new_ids and max(new_ids) > meta.last_object_identifier:
        errs.append(("identifier_above_high_water_mark", {}, {"max_new": max(new_ids), "last_object_identifier": meta.last_object_identifier}))
    # rule 3: references of new / rewritten objects resolve
    for i, o in pkg.objs.items():
        changed = i not in S or S[i].raw != o.raw
        if not changed:
            continue
        old = set(refs_of(S[i].msg)) if i in S else set()
        for pth, tgt in refs_of(o.msg):
            if tgt and tgt not in pkg.objs:
                if (pth, tgt) in old and tgt not in S:
                    continue  # already unresolved in the source
                errs.append(("dangling_reference", {"type": type(o.msg).__name__, "field": pth.split(".")[-1], "new_object": i not in S},
                             {"object": i, "path": pth, "target": tgt, "member": o.member}))
        for mi in o.info.message_infos:
            for r in mi.object_references:
                if r and r not in pkg.objs:
                    if i in S and r in [x for m2 in S[i].info.message_infos for x in m2.object_references] and r not in S:
                        continue
                    errs.append(("dangling_header_reference", {"type": type(o.msg).__name__}, {"object": i, "target": r}))
    # rule 4: components / data
    comp_ids = [c.identifier for c in meta.components]
    dups = [k for k, v in Counter(comp_ids).items() if v > 1]
    if dups:
        errs.append(("component_identifier_not_unique", {}, {"ids": dups[:5]}))
    # the file of a component is named by its locator; by its preferred_locator only where it has no locator (so it is in all
    # 4387 components of the fixtures whose two names differ)
    locs = set()
    for c in meta.components:
        locs.add(c.locator if c.locator else c.preferred_locator)
    src_members = set(src_bytes)
    for n in pkg.members:
        if n.endswith(".iwa") and n.startswith("Index/") and n != "Index/Metadata.iwa":
            if n[len("Index/"):-4] not in locs and norm(n) not in src_members:
                errs.append(("archive_not_in_package_metadata", {"member_kind": os.path.basename(n).split("-")[0].split(".")[0]}, {"member": n}))
    src_datas = {d.identifier for d in metadata(src).datas} if src is not None and metadata(src) is not None else set()
    for d in meta.datas:
        if d.identifier in src_datas:
            continue
        fn = "Data/" + d.file_name
        if fn not in pkg.members:
            errs.append(("data_member_missing", {}, {"file": fn, "data_id": d.identifier}))
        elif d.HasField("materialized_length") and d.materialized_length != len(pkg.members[fn]):
            errs.append(("data_member_length", {}, {"file": fn, "declared": d.materialized_length, "actual": len(pkg.members[fn])}))
    # lookup lists: a key names one entry (a cell's id must resolve to exactly one entry)
    for i, o in pkg.objs.items():
        if type(o.msg).__name__ != "TableDataList":
            continue
        if i in S and S[i].raw == o.raw:
            continue
        keys = [e.key for e in o.msg.entries]
        dups = sorted(k for k, v in Counter(keys).items() if v > 1)
        if dups:
            errs.append(("data_list_keys_not_unique", {"list_type": int(o.msg.listType)}, {"object": i, "duplicate_keys": dups[:6], "n_entries": len(keys)}))
    # rule 5: tables
    for i, o in pkg.objs.items():
        if type(o.msg).__name__ != "TableModelArchive":
            continue
        if o.msg.table_name in pivot_tables:
            continue
        errs += validate_table(pkg, i, o.msg)
    return errs


def validate_table(pkg, tid, tm):
    errs = []
    objs = pkg.objs
    bds = tm.base_data_store
    nrows, ncols = tm.number_of_rows, tm.number_of_columns
    f = {"table_shape": ("multi-tile" if nrows > 256 else "one-tile") + ("/wide" if ncols > 255 else "")}

    def E(rule, fields, detail):
        errs.append((rule, {**f, **fields}, {"table": tm.table_name, "table_id": tid, "rows": nrows, "cols": ncols, **detail}))
    tiles = []
    for t in bds.tiles.tiles:
        if t.tile.identifier not in objs:
            E("tile_reference_unresolved", {}, {"tileid": t.tileid, "target": t.tile.identifier})
            return errs
        tiles.append((t.tileid, objs[t.tile.identifier].msg, t.tile.identifier))
    if [t for t, _, _ in tiles] != list(range(len(tiles))):
        E("tile_ids_not_contiguous", {}, {"tileids": [t for t, _, _ in tiles]})
    tile_objs = [x for _, _, x in tiles]
    if len(set(tile_objs)) != len(tile_objs):
        E("tile_object_shared", {}, {"tile_objects": tile_objs})
    seen_rows = set()
    sum_numrows = 0
    sum_infos = 0
    for tileid, t, tobj in tiles:
        idx = [r.tile_row_index for r in t.rowInfos]
        sum_numrows += t.numrows
        sum_infos += len(idx)
        if len(idx) > 256:
            E("tile_too_many_rows", {}, {"tileid": tileid, "rowInfos": len(idx)})
        if len(set(idx)) != len(idx) or any(i >= 256 or i < 0 for i in idx):
            E("tile_row_index", {"what": "duplicate-or-out-of-range"}, {"tileid": tileid, "indexes": idx[:8]})
        span = min(256, max(0, nrows - tileid * 256))
        if t.numrows != len(idx):
            # both conventions agree here: Numbers counts the stored rows, the library stores every declared row of the span
            E("tile_numrows", {"what": "numrows-differs-from-stored-rows"}, {"tileid": tileid, "numrows": t.numrows, "rowInfos": len(idx), "declared_in_span": span})
        for r in t.rowInfos:
            g = tileid * 256 + r.tile_row_index
            if g >= nrows:
                E("row_beyond_declared_rows", {}, {"tileid": tileid, "tile_row_index": r.tile_row_index, "global_row": g})
            if g in seen_rows:
                E("row_stored_twice", {}, {"global_row": g})
            seen_rows.add(g)
            errs += [(rule, {**f, **fl}, {"table": tm.table_name, "row": g, **d}) for rule, fl, d in validate_row(r, ncols)]
    if all(t.numrows == min(256, max(0, nrows - tid_ * 256)) for tid_, t, _ in tiles) and sum_numrows != nrows:
        E("tiles_do_not_account_for_rows", {}, {"sum_numrows": sum_numrows})
    if nrows > 0 and len(tiles) < (nrows + 255) // 256 and sum_infos == sum_numrows and max(seen_rows, default=-1) < nrows - 256:
        pass
    # header buckets
    try:
        rb = [h.index for b in bds.rowHeaders.buckets for h in objs[b.identifier].msg.headers]
        cb = [h.index for h in objs[bds.columnHeaders.identifier].msg.headers]
    except KeyError as e:
        E("header_bucket_unresolved", {}, {"target": str(e)})
        return errs
    if len(set(rb)) != len(rb) or any(i < 0 or i >= nrows for i in rb):
        E("row_headers", {"what": "duplicate-or-out-of-range"}, {"n": len(rb)})
    if len(set(cb)) != len(cb) or any(i < 0 or i >= ncols for i in cb):
        E("column_headers", {"what": "duplicate-or-out-of-range"}, {"n": len(cb)})
    missing = sorted(seen_rows - set(rb))
    if missing:
        E("row_headers", {"what": "missing-for-stored-row"}, {"rows": missing[:6]})
    # merge map
    if bds.merge_region_map.identifier:
        mm = objs.get(bds.merge_region_map.identifier)
        if mm is None:
            E("merge_map_unresolved", {}, {})
        else:
            rects = []
            for cr in mm.msg.cell_range:
                c0, r0 = cr.origin.packedData >> 16, cr.origin.packedData & 0xFFFF
                w, h = cr.size.packedData >> 16, cr.size.packedData & 0xFFFF
                rects.append((r0, c0, r0 + h - 1, c0 + w - 1))
                if r0 + h > nrows or c0 + w > ncols or h < 1 or w < 1:
                    E("merge_rectangle_outside_table", {}, {"rect": rects[-1]})
            for a in range(len(rects)):
                for b in range(a + 1, len(rects)):
                    x, y = rects[a], rects[b]
                    if not (x[2] < y[0] or y[2] < x[0] or x[3] < y[1] or y[3] < x[1]):
                        E("merge_rectangles_overlap", {}, {"a": x, "b": y})
    return errs


def row_offsets(r):
    b = r.cell_offsets
    if len(b) % 2:
        return None
    return array("h", b).tolist()


def validate_row(r, ncols):
    """-> [(rule, fields, detail)] for one TileRowInfo."""
    out = []
    offs = row_offsets(r)
    if offs is None:
        return [("cell_offsets", {"what": "odd-length"}, {"len": len(r.cell_offsets)})]
    mul = 4 if r.has_wide_offsets else 1
    present = [(c, o * mul) for c, o in enumerate(offs) if o >= 0]
    if any(c >= ncols for c, _ in present):
        out.append(("cell_offsets", {"what": "cell-beyond-declared-columns"}, {"cols": [c for c, _ in present if c >= ncols][:4]}))
    buf = bytes(r.cell_storage_buffer)
    pos = [p for _, p in present]
    if pos != sorted(pos) or len(set(pos)) != len(pos):
        out.append(("cell_offsets", {"what": "not-strictly-increasing"}, {"offsets": pos[:8]}))
        return out
    if len(present) != r.cell_count:
        out.append(("cell_count", {}, {"present": len(present), "cell_count": r.cell_count}))
    expect = 0
    for c, p in present:
        if p % 4:
            out.append(("cell_record", {"what": "not-4-byte-aligned"}, {"col": c, "offset": p}))
        if p != expect:
            out.append(("cell_record", {"what": "gap" if p > expect else "overlap"}, {"col": c, "offset": p, "expected": expect}))
            return out
        if p >= len(buf) and len(buf) > 0 or p > len(buf):
            out.append(("cell_record", {"what": "offset-out-of-bounds"}, {"col": c, "offset": p, "buffer": len(buf)}))
            return out
        try:
            d = cellrec.decode(buf[p:])
        except cellrec.RecordError as e:
            out.append(("cell_record", {"what": "undecodable"}, {"col": c, "offset": p, "err": str(e)}))
            return out
        if d["flags"] & ~cellrec.KNOWN_MASK:
            out.append(("cell_record", {"what": "unknown-flag-bits"}, {"col": c, "flags": hex(d["flags"])}))
        expect = p + d["end"]
    if expect != len(buf):
        out.append(("cell_record", {"what": "buffer-tail-unaccounted" if expect < len(buf) else "record-beyond-buffer"}, {"accounted": expect, "buffer": len(buf)}))
    return out


# =========================================================================================
# rewriter (C06)
def set_message(pkg: Package, ident: int, msg):
    """Replace the first message of object `ident` by msg (serialised by protobuf) inside pkg.segments."""
    o = pkg.objs[ident]
    raw = msg.SerializeToString()
    for ai, msgs in pkg.segments[o.member]:
        if ai.identifier == ident:
            msgs[0] = raw
    o.msg, o.raw = msg, raw


def emit(pkg: Package, out_path: str, rng=None, rechunk=False, shuffle_members=False, compression=None, as_package=None):
    """Write pkg to out_path.  rechunk: random cuts + stored chunks in every archive;
    compression: None keep | 'stored' | 'deflated' | 'mixed'; as_package: None keep the source form."""
    names = list(pkg.members)
    if shuffle_members and rng is not None:
        rng.shuffle(names)
    blobs = {}
    for n in names:
        if n in pkg.segments:
            p = iwa.build(pkg.segments[n])
            if rechunk and rng is not None and len(p) > 2:
                k = rng.randint(1, 5)
                cuts = sorted({rng.randrange(1, len(p)) for _ in range(k)} | set(range(65536, len(p), 65536)))
                mask = rng.getrandbits(len(cuts) + 1) if rng.random() < .5 else 0
                blobs[n], _ = iwa.frame(p, cuts, stored=lambda i, m=mask: bool(m >> i & 1))
            else:
                blobs[n], _ = iwa.frame(p)
        else:
            blobs[n] = pkg.members[n]

    def ctype(n):
        if compression == "stored":
            return zipfile.ZIP_STORED
        if compression == "deflated":
            return zipfile.ZIP_DEFLATED
        if compression == "mixed" and rng is not None:
            return rng.choice([zipfile.ZIP_STORED, zipfile.ZIP_DEFLATED])
        return pkg.compress.get(n, zipfile.ZIP_STORED)
    pkg_form = pkg.is_package if as_package is None else as_package
    if pkg_form:
        os.makedirs(out_path, exist_ok=True)
        buf = io.BytesIO()
        with zipfile.ZipFile(buf, "w") as z:
            for n in names:
                if n.startswith("Index/"):
                    z.writestr(zipfile.ZipInfo(n), blobs[n], compress_type=ctype(n))
        with open(os.path.join(out_path, "Index.zip"), "wb") as f:
            f.write(buf.getvalue())
        for n in names:
            if not n.startswith("Index/"):
                full = os.path.join(out_path, n)
                os.makedirs(os.path.dirname(full), exist_ok=True)
                with open(full, "wb") as f:
                    f.write(blobs[n])
    else:
        with zipfile.ZipFile(out_path, "w") as z:
            for n in names:
                z.writestr(zipfile.ZipInfo(n), blobs[n], compress_type=ctype(n))


def permute_datalists(pkg: Package, rng, how="random"):
    """Permute the entries of every TST.TableDataList.  -> number of lists changed."""
    n = 0
    for ident, o in list(pkg.objs.items()):
        if type(o.msg).__name__ != "TableDataList":
            continue
        es = list(o.msg.entries)
        if len(es) < 2:
            continue
        if how == "reverse":
            es.reverse()
        elif how == "rotate":
            es = es[1:] + es[:1]
        else:
            rng.shuffle(es)
        m = type(o.msg)()
        m.CopyFrom(o.msg)
        del m.entries[:]
        m.entries.extend(es)
        set_message(pkg, ident, m)
        n += 1
    return n


def permute_tile_refs(pkg: Package, rng):
    """Permute the order in which a table lists its tiles (each reference carries its own tileid).  -> tables changed."""
    n = 0
    for ident, o in list(pkg.objs.items()):
        if type(o.msg).__name__ != "TableModelArchive":
            continue
        refs = list(o.msg.base_data_store.tiles.tiles)
        if len(refs) < 2:
            continue
        order = refs[::-1] if rng.random() < .5 else rng.sample(refs, len(refs))
        if [r.tileid for r in order] == [r.tileid for r in refs]:
            order = refs[::-1]
        m = type(o.msg)()
        m.CopyFrom(o.msg)
        del m.base_data_store.tiles.tiles[:]
        m.base_data_store.tiles.tiles.extend(order)
        set_message(pkg, ident, m)
        n += 1
    return n


def permute_row_infos(pkg: Package, rng):
    """Permute the order of the row records inside every tile (each record declares its own tile_row_index).  -> tiles changed."""
    n = 0
    for ident, o in list(pkg.objs.items()):
        if type(o.msg).__name__ != "Tile":
            continue
        rows = list(o.msg.rowInfos)
        if len(rows) < 2:
            continue
        order = rows[::-1] if rng.random() < .5 else rng.sample(rows, len(rows))
        m = type(o.msg)()
        m.CopyFrom(o.msg)
        del m.rowInfos[:]
        m.rowInfos.extend(order)
        set_message(pkg, ident, m)
        n += 1
    return n


def convert_offsets(pkg: Package, to_wide: bool):
    """narrow -> wide where every offset is a multiple of 4; wide -> narrow where every offset*4 < 32768.
    -> (rows converted, rows not representable)"""
    done = skipped = 0
    for ident, o in list(pkg.objs.items()):
        if type(o.msg).__name__ != "Tile":
            continue
        m = type(o.msg)()
        m.CopyFrom(o.msg)
        changed = False
        for r in m.rowInfos:
            offs = row_offsets(r)
            if offs is None or r.has_wide_offsets == to_wide:
                continue
            if to_wide:
                if any(x >= 0 and x % 4 for x in offs):
                    skipped += 1
                    continue
                new = [x // 4 if x >= 0 else x for x in offs]
            else:
                if any(x >= 0 and x * 4 >= 32768 for x in offs):
                    skipped += 1
                    continue
                new = [x * 4 if x >= 0 else x for x in offs]
            r.cell_offsets = array("h", new).tobytes()
            r.has_wide_offsets = to_wide
            changed = True
            done += 1
        if changed:
            set_message(pkg, ident, m)
    return done, skipped


def add_empty_row_headers(pkg: Package, rng, fraction=1.0):
    """Add a header record for rows that have no TileRowInfo and no header yet.  -> number added."""
    added = 0
    for ident, o in list(pkg.objs.items()):
        if type(o.msg).__name__ != "TableModelArchive":
            continue
        tm = o.msg
        bds = tm.base_data_store
        stored = set()
        for t in bds.tiles.tiles:
            to = pkg.objs.get(t.tile.identifier)
            if to is None:
                continue
            for r in to.msg.rowInfos:
                stored.add(t.tileid * 256 + r.tile_row_index)
        if not bds.rowHeaders.buckets:
            continue
        bid = bds.rowHeaders.buckets[0].identifier
        if bid not in pkg.objs:
            continue
        bucket = pkg.objs[bid].msg
        have = {h.index for h in bucket.headers}
        empty = [r for r in range(tm.number_of_rows) if r not in stored and r not in have]
        if not empty:
            continue
        m = type(bucket)()
        m.CopyFrom(bucket)
        hs = list(m.headers)
        for r in empty:
            if rng.random() <= fraction:
                h = type(hs[0])() if hs else m.headers.add()
                h.index = r
                h.numberOfCells = 0
                h.size = 0.0
                h.hidingState = 0
                hs.append(h)
                added += 1
        hs.sort(key=lambda h: h.index)
        del m.headers[:]
        m.headers.extend(hs)
        set_message(pkg, bid, m)
    return added


def drop_empty_row_infos(pkg: Package, rng, keep_header=True):
    """For library-written files (every row has a TileRowInfo): drop the TileRowInfo of rows whose
    cells are all absent/empty-typed, with or without keeping their header record. -> rows dropped."""
    dropped = 0
    for ident, o in list(pkg.objs.items()):
        if type(o.msg).__name__ != "TableModelArchive":
            continue
        tm = o.msg
        bds = tm.base_data_store
        gone = set()
        for t in bds.tiles.tiles:
            to = pkg.objs.get(t.tile.identifier)
            if to is None:
                continue
            m = type(to.msg)()
            m.CopyFrom(to.msg)
            keep = []
            for r in m.rowInfos:
                offs = row_offsets(r) or []
                mul = 4 if r.has_wide_offsets else 1
                buf = bytes(r.cell_storage_buffer)
                all_empty = True
                for x in offs:
                    if x >= 0:
                        try:
                            d = cellrec.decode(buf[x * mul:])
                        except cellrec.RecordError:
                            all_empty = False
                            break
                        if d["type"] != 0 or d["flags"]:
                            all_empty = False
                            break
                if all_empty and rng.random() < .7:
                    gone.add(t.tileid * 256 + r.tile_row_index)
                    dropped += 1
                else:
                    keep.append(r)
            if len(keep) != len(m.rowInfos):
                rows = [type(x)() for x in keep]
                for a, b in zip(rows, keep):
                    a.CopyFrom(b)
                del m.rowInfos[:]
                m.rowInfos.extend(rows)
                set_message(pkg, t.tile.identifier, m)
        if gone and not keep_header and bds.rowHeaders.buckets:
            bid = bds.rowHeaders.buckets[0].identifier
            if bid in pkg.objs:
                bucket = pkg.objs[bid].msg
                m = type(bucket)()
                m.CopyFrom(bucket)
                hs = [h for h in m.headers if h.index not in gone]
                hs2 = [type(h)() for h in hs]
                for a, b in zip(hs2, hs):
                    a.CopyFrom(b)
                del m.headers[:]
                m.headers.extend(hs2)
                set_message(pkg, bid, m)
    return dropped
