"""Documented meaning of each date/time directive (docs/api/datetime.rst), written as a table
of functions of the datetime - no strftime.  Each entry returns the list of *acceptable*
renderings (more than one where the documentation leaves a choice, see DESIGN C14/L)."""
from __future__ import annotations

from datetime import datetime

MONTHS = ["January", "February", "March", "April", "May", "June", "July", "August", "September", "October", "November", "December"]
DAYS = ["Monday", "Tuesday", "Wednesday", "Thursday", "Friday", "Saturday", "Sunday"]


def yday(t: datetime) -> int:
    return (t - datetime(t.year, 1, 1)).days + 1


def us(t):
    return f"{t.microsecond:06d}"


REF = {
    "a": lambda t: ["am" if t.hour < 12 else "pm"],
    "EEEE": lambda t: [DAYS[t.weekday()]],
    "EEE": lambda t: [DAYS[t.weekday()][:3]],
    # yyyy below year 1000: the docs do not say whether the year is zero padded
    "yyyy": lambda t: [f"{t.year:04d}", str(t.year)],
    "yy": lambda t: [f"{t.year % 100:02d}"],
    # y: docs say 'without century', the Numbers-recorded reference workbook shows the full year
    "y": lambda t: [str(t.year), str(t.year % 100)],
    "MMMM": lambda t: [MONTHS[t.month - 1]],
    "MMM": lambda t: [MONTHS[t.month - 1][:3]],
    "MM": lambda t: [f"{t.month:02d}"],
    "M": lambda t: [str(t.month)],
    "d": lambda t: [str(t.day)],
    "dd": lambda t: [f"{t.day:02d}"],
    "DDD": lambda t: [f"{yday(t):03d}"],
    "DD": lambda t: [f"{yday(t):02d}"],
    "D": lambda t: [str(yday(t))],
    "HH": lambda t: [f"{t.hour:02d}"],
    "H": lambda t: [str(t.hour)],
    "hh": lambda t: [f"{(t.hour - 1) % 12 + 1:02d}"],
    "h": lambda t: [str((t.hour - 1) % 12 + 1)],
    "k": lambda t: [str(t.hour or 24)],
    "kk": lambda t: [f"{t.hour or 24:02d}"],
    "K": lambda t: [str(t.hour % 12)],
    "KK": lambda t: [f"{t.hour % 12:02d}"],
    "mm": lambda t: [f"{t.minute:02d}"],
    "m": lambda t: [str(t.minute)],
    "ss": lambda t: [f"{t.second:02d}"],
    "s": lambda t: [str(t.second)],
    # week of the year, Monday first; 'ww' is a two-letter directive: padded or not are both accepted
    "ww": lambda t: [f"{(yday(t) + 6 - t.weekday()) // 7:02d}", str((yday(t) + 6 - t.weekday()) // 7)],
    "G": lambda t: ["AD"],
    "F": lambda t: [str((t.day - 1) // 7 + 1)],
    "S": lambda t: [us(t)[:1]],
    "SS": lambda t: [us(t)[:2]],
    "SSS": lambda t: [us(t)[:3]],
    "SSSS": lambda t: [us(t)[:4]],
    "SSSSS": lambda t: [us(t)[:5]],
}
# W (week of month) depends on a first-day-of-week convention the docs do not fix: judged by
# W(day 1) == 0, W(d+7) == W(d)+1 and monotonicity over the month (see props/c14.py).
FIELD_OF = {
    "a": "hour", "EEEE": "weekday", "EEE": "weekday", "yyyy": "year", "yy": "year", "y": "year", "MMMM": "month", "MMM": "month", "MM": "month", "M": "month",
    "d": "day", "dd": "day", "DDD": "yday", "DD": "yday", "D": "yday", "HH": "hour", "H": "hour", "hh": "hour", "h": "hour", "k": "hour", "kk": "hour", "K": "hour",
    "KK": "hour", "mm": "minute", "m": "minute", "ss": "second", "s": "second", "ww": "yday", "G": "era", "F": "day", "S": "subsecond", "SS": "subsecond",
    "SSS": "subsecond", "SSSS": "subsecond", "SSSSS": "subsecond", "W": "day",
}


def expected_composite(parts, t):
    """parts: list of ("dir", name) | ("lit", text) | ("quoted", text).  -> set of acceptable strings
    (cartesian product over the alternatives, capped)."""
    outs = [""]
    for kind, x in parts:
        if kind == "dir":
            alts = REF[x](t)
        else:
            alts = [x]
        outs = [o + a for o in outs for a in alts][:64]
    return set(outs)


def format_string(parts):
    """The format string as written in a Numbers custom format: quoted text in '...' with '' for a quote."""
    s = ""
    for kind, x in parts:
        if kind == "dir":
            s += x
        elif kind == "lit":
            s += x.replace("'", "''")  # a literal apostrophe is written doubled
        else:
            s += "'" + x.replace("'", "''") + "'"
    return s
