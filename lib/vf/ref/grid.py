"""Plain two-dimensional grid: the sequential model for C03/C11 (a list of lists)."""
from __future__ import annotations


class Grid:
    def __init__(self, rows: int, cols: int, data=None):
        self.d = [list(r) for r in data] if data is not None else [[None] * cols for _ in range(rows)]

    @property
    def rows(self):
        return len(self.d)

    @property
    def cols(self):
        return len(self.d[0]) if self.d else 0

    def copy(self):
        return Grid(0, 0, self.d)

    def write(self, r, c, v):
        ncols = self.cols
        while self.rows <= r:
            self.d.append([None] * ncols)
        if c >= ncols:
            for row in self.d:
                row.extend([None] * (c + 1 - ncols))
        self.d[r][c] = v

    def add_row(self, n=1, start=None, default=None):
        start = self.rows if start is None else start
        ncols = self.cols
        self.d[start:start] = [[default] * ncols for _ in range(n)]

    def add_column(self, n=1, start=None, default=None):
        start = self.cols if start is None else start
        for row in self.d:
            row[start:start] = [default] * n

    def delete_row(self, n=1, start=None):
        if n <= 0:
            return
        if start is None:
            del self.d[self.rows - n:]
        else:
            del self.d[start:start + n]

    def delete_column(self, n=1, start=None):
        if n <= 0:
            return
        for row in self.d:
            if start is None:
                del row[len(row) - n:]
            else:
                del row[start:start + n]
