"""v5 cell record codec written from the published layout (docs/Numbers.md, DESIGN A.2).
Does not import numbers_parser.cell."""
import struct

# (bit, size, name) in ascending flag-bit order
FIELDS = [
    (0x1, 16, "d128"), (0x2, 8, "double"), (0x4, 8, "seconds"), (0x8, 4, "string_id"),
    (0x10, 4, "rich_id"), (0x20, 4, "cell_style_id"), (0x40, 4, "text_style_id"),
    (0x80, 4, "cond_style_id"), (0x100, 4, "cond_rule_style_id"), (0x200, 4, "formula_id"),
    (0x400, 4, "control_id"), (0x800, 4, "formula_error_id"), (0x1000, 4, "suggest_id"),
    (0x2000, 4, "num_format_id"), (0x4000, 4, "currency_format_id"), (0x8000, 4, "date_format_id"),
    (0x10000, 4, "duration_format_id"), (0x20000, 4, "text_format_id"), (0x40000, 4, "bool_format_id"),
    (0x80000, 4, "comment_id"), (0x100000, 4, "import_warning_id"),
]
BIT = {name: bit for bit, _, name in FIELDS}
SIZE = {name: size for _, size, name in FIELDS}
KNOWN_MASK = (1 << 21) - 1
TYPES = {0: "empty", 2: "number", 3: "text", 5: "date", 6: "bool", 7: "duration", 8: "error", 9: "rich", 10: "currency"}
# the ids the library interprets (its attribute is "_" + name)
LIB_IDS = ["string_id", "rich_id", "cell_style_id", "text_style_id", "formula_id", "control_id", "suggest_id",
           "num_format_id", "currency_format_id", "date_format_id", "duration_format_id", "text_format_id",
           "bool_format_id"]


class RecordError(Exception):
    pass


def decode(buf) -> dict:
    buf = bytes(buf)
    if len(buf) < 12:
        raise RecordError(f"short record {len(buf)}")
    if buf[0] != 5:
        raise RecordError(f"version {buf[0]}")
    flags = struct.unpack("<I", buf[8:12])[0]
    off = 12
    out = {"type": buf[1], "flags": flags, "extras": struct.unpack("<H", buf[6:8])[0]}
    for bit, size, name in FIELDS:
        if flags & bit:
            raw = buf[off:off + size]
            if len(raw) != size:
                raise RecordError(f"field {name} at {off} beyond record of {len(buf)} bytes")
            if size == 16:
                out[name] = raw
            elif size == 8:
                out[name] = struct.unpack("<d", raw)[0]
            else:
                out[name] = struct.unpack("<i", raw)[0]
            off += size
    out["end"] = off
    return out


def length_for(flags: int) -> int:
    return 12 + sum(size for bit, size, _ in FIELDS if flags & bit)


def encode(cell_type: int, fields: dict, extras: int = 0) -> bytes:
    """fields: name -> value (bytes for d128, float for double/seconds, int ids)."""
    flags = 0
    body = b""
    for bit, size, name in FIELDS:
        if name in fields:
            flags |= bit
            v = fields[name]
            if size == 16:
                assert len(v) == 16
                body += bytes(v)
            elif size == 8:
                body += struct.pack("<d", v)
            else:
                body += struct.pack("<i", v)
    head = bytearray(12)
    head[0] = 5
    head[1] = cell_type
    head[6:8] = struct.pack("<H", extras)
    head[8:12] = struct.pack("<I", flags)
    return bytes(head) + body
