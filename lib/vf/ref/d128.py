"""decimal128 <-> Decimal in exact integer arithmetic (DESIGN A.3).  Independent of cell.py."""
from decimal import Decimal, localcontext

BIAS = 0x1820


def decode(b: bytes) -> Decimal:
    b = bytes(b)
    assert len(b) == 16, len(b)
    coeff = int.from_bytes(b[0:14], "little") | ((b[14] & 1) << 112)
    exp = (((b[15] & 0x7F) << 7) | (b[14] >> 1)) - BIAS
    sign = 1 if b[15] & 0x80 else 0
    with localcontext() as ctx:
        ctx.prec = 200
        ctx.Emax = 999999
        ctx.Emin = -999999
        return Decimal((sign, tuple(int(c) for c in str(coeff)), exp))


def encode(d: Decimal) -> bytes:
    """Canonical-enough encoder for the generator side: coefficient as given, no rounding."""
    sign, digits, exp = d.as_tuple()
    coeff = int("".join(map(str, digits)) or "0")
    assert coeff < (1 << 113)
    e = exp + BIAS
    assert 0 <= e < (1 << 14)
    b = bytearray(coeff.to_bytes(15, "little"))
    assert b[14] <= 1
    b[14] |= (e & 0x7F) << 1
    b.append((e >> 7) | (0x80 if sign else 0))
    return bytes(b)


def exact_of_float(v: float) -> Decimal:
    """What a float of <= 15-17 significant digits *means* in decimal: its shortest repr."""
    return Decimal(repr(float(v)))


def same_number(a: Decimal, b: Decimal) -> bool:
    with localcontext() as ctx:
        ctx.prec = 200
        ctx.Emax = 999999
        ctx.Emin = -999999
        return a.compare(b) == 0
