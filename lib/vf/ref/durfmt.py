"""Read-back parser for displayed durations (DESIGN A.9)."""
from __future__ import annotations

import re

UNITS = [(1, "w", 604_800_000), (2, "d", 86_400_000), (4, "h", 3_600_000), (8, "m", 60_000), (16, "s", 1_000), (32, "ms", 1)]
NAMES = {"w": "week", "d": "day", "h": "hour", "m": "minute", "s": "second", "ms": "millisecond"}


class DurParse(Exception):
    pass


def parse(text: str, style: int, units):
    """units: the contiguous window of UNITS shown.  -> list of ints (one per unit)."""
    if style == 0:
        parts = re.split(r"[:.]", text)
        if len(parts) != len(units):
            raise DurParse("field-count")
        if not all(re.fullmatch(r"\d+", x) for x in parts):
            raise DurParse("non-digit")
        if units[-1][1] == "ms" and len(units) > 1 and "." not in text:
            raise DurParse("ms-separator")
        # paddings: minutes/seconds two digits unless leading; milliseconds three unless leading
        for i, (x, (b, n, f)) in enumerate(zip(parts, units)):
            if i > 0 and n in ("m", "s") and len(x) != 2:
                raise DurParse("padding-" + n)
            if i > 0 and n == "ms" and len(x) != 3:
                raise DurParse("padding-ms")
        return [int(x) for x in parts]
    if style == 1:
        toks = text.split(" ")
        if len(toks) != len(units):
            raise DurParse("field-count")
        vals = []
        for tok, (b, n, f) in zip(toks, units):
            m = re.fullmatch(r"(\d+)" + n, tok)
            if not m:
                raise DurParse("unit")
            vals.append(int(m.group(1)))
        return vals
    mm = re.findall(r"(\d+) ([a-z]+)", text)
    if len(mm) != len(units) or " ".join(f"{a} {b}" for a, b in mm) != text:
        raise DurParse("field-count")
    vals = []
    for (num, word), (b, n, f) in zip(mm, units):
        exp = NAMES[n] + ("" if int(num) == 1 else "s")
        if word != exp:
            raise DurParse("plural" if word.rstrip("s") == NAMES[n] else "unit")
        vals.append(int(num))
    return vals


def judge(text, ms, style, li, si):
    """-> None if the text equals the duration truncated to the smallest displayed unit, else (what, detail)."""
    units = UNITS[li:si + 1]
    try:
        vals = parse(text, style, units)
    except DurParse as e:
        return ("parse:" + str(e), {"text": text, "units": [u[1] for u in units]})
    total = sum(v * f for v, (b, n, f) in zip(vals, units))
    smallest = units[-1][2]
    want = ms // smallest * smallest
    for (v, (b, n, f)), (pb, pn, pf) in zip(list(zip(vals, units))[1:], units[:-1]):
        if v * f >= pf:
            return ("field-overflow", {"text": text, "field": n, "value": v})
    if total != want:
        return ("value", {"text": text, "shown_ms": total, "want_ms": want, "units": [u[1] for u in units]})
    return None


def judge_auto(text, ms, style):
    """Automatic units: the text does not always name its units (compact); accept if *some*
    contiguous window of that many fields makes it equal the truncated duration."""
    if style == 0:
        nfields = len(re.split(r"[:.]", text))
    elif style == 1:
        nfields = len(text.split(" "))
    else:
        nfields = len(re.findall(r"(\d+) ([a-z]+)", text))
    last = None
    for li in range(len(UNITS)):
        si = li + nfields - 1
        if si >= len(UNITS):
            break
        r = judge(text, ms, style, li, si)
        if r is None:
            # the window must not hide a non-zero remainder below a unit larger than ms ... truncation is allowed by the statement
            return None
        last = r
    return last or ("parse:no-window", {"text": text})
