"""Read-back parsers for displayed numbers (DESIGN A.8).  Independent of cell.py: they only
read the text the library produced and compare it numerically with the stored value."""
from __future__ import annotations

import re
from decimal import Decimal, localcontext
from fractions import Fraction

BODY_SEP = re.compile(r"\d{1,3}(,\d{3})*(\.\d+)?")
BODY_PLAIN = re.compile(r"\d+(\.\d+)?")


def dec(v) -> Decimal:
    return Decimal(repr(float(v)))


def judge_decimal(text: str, value: float, kind: str, places, sep: bool, neg_style: int, accounting: bool):
    """kind: number | currency | percentage.  places: int or None (automatic).
    neg_style: 0 minus, 1 red (no sign by documentation), 2 parentheses, 3 red+parentheses.
    -> list of (sub_oracle, fields, detail)"""
    out = []
    x = dec(value)
    target = x * 100 if kind == "percentage" else x
    eff_places = places
    f = {"fmt": kind, "auto": places is None, "accounting": bool(accounting)}
    ctxd = {"sep": bool(sep), "neg_style": int(neg_style), "negative": x < 0}
    with localcontext() as ctx:
        ctx.prec = 60
        if eff_places is not None:
            q = Decimal(1).scaleb(-eff_places)
            f["rounds_to_zero"] = abs(target) <= q / 2
        else:
            f["rounds_to_zero"] = target == 0
            f["tiny"] = (target != 0 and abs(target) < Decimal("1e-4"))
        s = text
        body = s.replace("\t", "")
        body = re.sub(r"^[^0-9(.\-]*", "", body)
        paren = False
        if body.startswith("(") and (body.endswith(")") or body.endswith(")%")):
            paren = True
            body = body[1:].replace(")", "", 1)
        pct = body.endswith("%")
        if pct:
            body = body[:-1]
        if (kind == "percentage") != pct:
            out.append(("decoration", {**f, "what": "percent-sign"}, {"text": text}))
            return out
        minus = body.startswith("-")
        if minus:
            body = body[1:]
        pat = BODY_SEP if sep else BODY_PLAIN
        if not pat.fullmatch(body):
            # grouping present although not asked for, or not at multiples of three, or not a number at all
            if not sep and BODY_SEP.fullmatch(body):
                what = "separator-not-requested"
            elif re.fullmatch(r"[\d,]+(\.\d+)?", body):
                what = "grouping-misplaced"
            elif re.fullmatch(r"\d+(\.\d+)?[eE][+-]?\d+", body):
                what = "exponent-notation"
            elif body == "":
                what = "no-digits"
            else:
                what = "not-a-number"
            out.append(("unparsable", {**f, "what": what}, {"text": text, "value": repr(value)}))
            return out
        shown = Decimal(body.replace(",", ""))
        nd = len(body.split(".")[1]) if "." in body else 0
        negative_shown = minus or paren
        # sign
        if x < 0 and not f["rounds_to_zero"]:
            if neg_style == 1 and not accounting:
                if negative_shown:
                    pass  # documented as 'no minus sign'; a sign would not be wrong numerically
            elif not negative_shown:
                out.append(("sign", {**f, "what": "negative-shown-positive"}, {"text": text, "value": repr(value)}))
            if neg_style in (2, 3) and not accounting and minus and not paren:
                out.append(("decoration", {**f, "what": "minus-instead-of-parentheses"}, {"text": text}))
        elif x > 0 and negative_shown:
            out.append(("sign", {**f, "what": "positive-shown-negative"}, {"text": text, "value": repr(value)}))
        mag = abs(target)
        if eff_places is not None:
            if nd != eff_places:
                out.append(("decimals_shown", f, {"text": text, "value": repr(value), "places": eff_places, "shown": nd}))
            q = Decimal(1).scaleb(-eff_places)
            if abs(shown - mag) > q / 2:
                out.append(("magnitude", f, {"text": text, "value": repr(value), "places": eff_places, "shown": str(shown)}))
        else:
            # automatic: the text must re-parse to the same double (<= 15 significant digits)
            back = float(shown / 100) if kind == "percentage" else float(shown)
            if back != abs(float(value)):
                # tolerate the 15-significant-digit limit of the display
                rel = abs(Decimal(repr(back)) - abs(x)) / abs(x) if x != 0 else Decimal(1)
                if rel > Decimal("5e-15"):
                    out.append(("magnitude", f, {"text": text, "value": repr(value), "shown": str(shown)}))
    return out


SCI = re.compile(r"(-?)(\d)(?:\.(\d+))?E([+-])(\d+)")


def judge_scientific(text: str, value: float, places: int):
    out = []
    x = dec(value)
    f = {"fmt": "scientific", "zero": x == 0}
    m = SCI.fullmatch(text)
    if not m:
        return [("unparsable", {**f, "what": "not-scientific"}, {"text": text, "value": repr(value)})]
    nd = len(m.group(3) or "")
    if nd != places:
        out.append(("decimals_shown", f, {"text": text, "places": places, "shown": nd}))
    with localcontext() as ctx:
        ctx.prec = 60
        shown = Decimal(text.replace("E", "e"))
        exp = int(m.group(4) + m.group(5))
        if x == 0:
            if shown != 0:
                out.append(("magnitude", f, {"text": text, "value": repr(value)}))
            return out
        q = Decimal(1).scaleb(exp - places)
        if abs(shown - x) > q / 2:
            out.append(("magnitude", f, {"text": text, "value": repr(value)}))
        if (shown < 0) != (x < 0):
            out.append(("sign", {**f, "what": "sign"}, {"text": text, "value": repr(value)}))
    return out


def judge_base(text: str, value: float, base: int, places: int, twos: bool):
    """The text, read in that base, must be the value rounded to an integer (either neighbour at a tie)."""
    import math
    out = []
    x = dec(value)
    lo, hi = math.ceil(x - Decimal("0.5")), math.floor(x + Decimal("0.5"))
    admissible = list(range(int(lo), int(hi) + 1)) or [int(round(value))]
    f = {"fmt": "base", "twos": bool(twos), "negative": x < 0, "integer_value": x == x.to_integral_value()}
    try:
        if twos and max(admissible) < 0:
            # a two's complement of width w >= 32 has its top bit set (the sign) and reads as val - 2**w; sign extension
            # only adds leading ones, so for every correct rendering w is the bit length of the digits read as a number
            val = int(text, base)
            w = val.bit_length()
            if w < 32 or (val - (1 << w)) not in admissible:
                why = "sign-bit-lost" if any(val == n % (1 << w2) for n in admissible for w2 in range(32, 200)) else "other"
                out.append(("magnitude", {**f, "what": "twos-complement", "why": why}, {"text": text, "value": repr(value), "base": base, "reads_as": val - (1 << w)}))
        else:
            neg = text.startswith("-")
            body = text[1:] if neg else text
            if not body or not re.fullmatch(r"[0-9A-Z]+", body):
                return [("unparsable", {**f, "what": "digits"}, {"text": text, "value": repr(value), "base": base})]
            shown = int(body, base) * (-1 if neg else 1)
            if shown not in admissible:
                out.append(("magnitude", {**f, "what": "value"}, {"text": text, "value": repr(value), "base": base, "shown": shown}))
            if len(body) < places:
                out.append(("decimals_shown", {**f, "what": "zero-padding"}, {"text": text, "places": places}))
    except ValueError:
        out.append(("unparsable", {**f, "what": "digits"}, {"text": text, "value": repr(value), "base": base}))
    return out


FRAC = re.compile(r"(-?)(?:(\d+)/(\d+)|(\d+)(?: (\d+)/(\d+))?)")


def judge_fraction(text: str, value: float, accuracy: int):
    """accuracy: fixed denominator (2,4,8,16,10,100) or 0xFFFFFFFF-style 'up to k digits' (0x100000000-k)."""
    out = []
    x = Fraction(dec(value))
    f = {"fmt": "fraction", "negative": x < 0, "fixed": accuracy < 0x1000}
    m = FRAC.fullmatch(text)
    if not m or text == "":
        return [("unparsable", {**f, "what": "fraction"}, {"text": text, "value": repr(value)})]
    whole = int(m.group(4) or 0)
    num = int(m.group(2) or m.group(5) or 0)
    den = int(m.group(3) or m.group(6) or 1)
    if den == 0:
        return [("unparsable", {**f, "what": "zero-denominator"}, {"text": text})]
    shown = Fraction(whole) + Fraction(num, den)
    if m.group(1):
        shown = -shown
    if accuracy < 0x1000:
        D = accuracy
        if D % den:
            out.append(("decoration", {**f, "what": "denominator-not-dividing-accuracy"}, {"text": text, "accuracy": D}))
        if abs(shown - x) > Fraction(1, 2 * D):
            out.append(("magnitude", f, {"text": text, "value": repr(value), "shown": float(shown), "accuracy": D}))
    else:
        k = 0x100000000 - accuracy
        maxd = 10 ** k - 1
        if den > maxd:
            out.append(("decoration", {**f, "what": "denominator-too-long"}, {"text": text, "digits": k}))
        best = min(abs(Fraction(round(x * dd), dd) - x) for dd in range(1, maxd + 1))
        if abs(shown - x) > best:
            out.append(("magnitude", f, {"text": text, "value": repr(value), "shown": float(shown), "best_error": float(best)}))
    if x != 0 and shown != 0 and (shown < 0) != (x < 0):
        out.append(("sign", {**f, "what": "sign"}, {"text": text, "value": repr(value)}))
    return out


def judge_rating(text: str, value: float):
    n = int(value)
    if text != "★" * n:
        return [("magnitude", {"fmt": "rating"}, {"text": text, "value": value})]
    return []
