"""Bijective base-26 column naming, written from the definition (A..Z, AA..ZZ, AAA..)."""
import re


def col_name(col: int) -> str:
    if col < 0:
        raise IndexError(col)
    n = col + 1
    out = []
    while n > 0:
        n, r = divmod(n - 1, 26)
        out.append(chr(65 + r))
    return "".join(reversed(out))


def col_index(name: str) -> int:
    n = 0
    for ch in name:
        assert "A" <= ch <= "Z", name
        n = n * 26 + (ord(ch) - 64)
    return n - 1


_CELL = re.compile(r"^(\$?)([A-Z]{1,3})(\$?)(\d+)$")


def parse_cell(text: str):
    """'$AB$12' -> (row, col, row_abs, col_abs); None if not canonical A1."""
    m = _CELL.match(text)
    if not m:
        return None
    row = int(m.group(4)) - 1
    if row < 0:
        return None
    return row, col_index(m.group(2)), bool(m.group(3)), bool(m.group(1))


def cell_name(row: int, col: int, row_abs=False, col_abs=False) -> str:
    if row < 0 or col < 0:
        raise IndexError((row, col))
    return ("$" if col_abs else "") + col_name(col) + ("$" if row_abs else "") + str(row + 1)
