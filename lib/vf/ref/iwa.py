"""Independent IWA container codec (DESIGN A.1).

Written from the format notes: a stream is a sequence of chunks  00 | len24le | payload ;
payload is raw snappy or stored; the concatenated plaintext is a sequence of
varint(len) ArchiveInfo message*.  Message payloads are kept as *bytes*, never re-serialised.
Trusted base: cramjam (snappy), protobuf, the generated ArchiveInfo class.
"""
import struct

import cramjam
from numbers_parser.generated.TSPArchiveMessages_pb2 import ArchiveInfo


class IWAError(Exception):
    pass


def varint(buf, pos):
    shift = 0
    val = 0
    while True:
        if pos >= len(buf):
            raise IWAError("truncated varint")
        b = buf[pos]
        pos += 1
        val |= (b & 0x7F) << shift
        if not b & 0x80:
            return val, pos
        shift += 7
        if shift > 63:
            raise IWAError("varint too long")


def enc_varint(n: int) -> bytes:
    out = bytearray()
    while True:
        b = n & 0x7F
        n >>= 7
        if n:
            out.append(b | 0x80)
        else:
            out.append(b)
            return bytes(out)


def snappy_ok(b: bytes):
    try:
        return bytes(cramjam.snappy.decompress_raw(b))
    except Exception:
        return None


def chunks(data: bytes):
    """-> list of (payload_bytes, plaintext_bytes, was_compressed)"""
    out = []
    pos = 0
    data = bytes(data)
    while pos < len(data):
        if data[pos] != 0:
            raise IWAError(f"marker {data[pos]:#x} at {pos}")
        if pos + 4 > len(data):
            raise IWAError("short chunk header")
        n = data[pos + 1] | data[pos + 2] << 8 | data[pos + 3] << 16
        payload = data[pos + 4:pos + 4 + n]
        if len(payload) != n:
            raise IWAError("short chunk")
        pos += 4 + n
        u = snappy_ok(payload)
        out.append((payload, u if u is not None else payload, u is not None))
    return out


def plain(data: bytes) -> bytes:
    return b"".join(c[1] for c in chunks(data))


def segments(p: bytes):
    """-> list of (header_bytes, ArchiveInfo, [message bytes])"""
    pos = 0
    segs = []
    while pos < len(p):
        n, pos = varint(p, pos)
        hdr = p[pos:pos + n]
        if len(hdr) != n:
            raise IWAError("short header")
        pos += n
        ai = ArchiveInfo.FromString(hdr)
        msgs = []
        for mi in ai.message_infos:
            m = p[pos:pos + mi.length]
            if len(m) != mi.length:
                raise IWAError("short message")
            msgs.append(m)
            pos += mi.length
        segs.append((hdr, ai, msgs))
    if pos != len(p):
        raise IWAError("trailing bytes")
    return segs


def decode(data: bytes):
    return segments(plain(data))


def build(segs) -> bytes:
    """segs: iterable of (ArchiveInfo, [message bytes]); lengths are set from the messages."""
    out = bytearray()
    for ai, msgs in segs:
        ai2 = ArchiveInfo()
        ai2.CopyFrom(ai)
        assert len(ai2.message_infos) == len(msgs)
        for mi, m in zip(ai2.message_infos, msgs):
            mi.length = len(m)
        h = ai2.SerializeToString()
        out += enc_varint(len(h)) + h + b"".join(msgs)
    return bytes(out)


def frame(p: bytes, cuts=None, stored=None):
    """Cut plaintext p at `cuts` (default every 65536) and emit chunks; stored: callable(i)->bool
    or bool.  A stored piece that is itself valid raw snappy would be ambiguous and is emitted
    compressed instead; returns (bytes, n_ambiguous_avoided)."""
    if cuts is None:
        cuts = list(range(65536, len(p), 65536))
    out = bytearray()
    prev = 0
    amb = 0
    pts = [c for c in sorted(set(cuts)) if 0 < c < len(p)] + [len(p)]
    for i, c in enumerate(pts):
        piece = p[prev:c]
        prev = c
        if not piece:
            continue
        assert len(piece) <= 65536 * 4
        want_stored = stored(i) if callable(stored) else bool(stored)
        payload = None
        if want_stored:
            if snappy_ok(piece) is None:
                payload = piece
            else:
                amb += 1
        if payload is None:
            payload = bytes(cramjam.snappy.compress_raw(piece))
        assert len(payload) < (1 << 24)
        out += b"\0" + struct.pack("<I", len(payload))[:3] + payload
    return bytes(out), amb


def insert_empty_chunks(data: bytes, where) -> bytes:
    """where: [(chunk_index, "stored" | "compressed")]: a chunk whose plaintext is empty is put in front of that chunk
    (index == number of chunks: at the end).  Stored: 00 00 00 00; compressed: the raw snappy encoding of nothing (00)."""
    out = bytearray()
    pos = 0
    i = 0
    data = bytes(data)
    todo = {}
    for idx, kind in where:
        todo.setdefault(idx, []).append(kind)
    while pos < len(data):
        for kind in todo.pop(i, []):
            out += b"\0\0\0\0" if kind == "stored" else b"\0\x01\0\0\0"
        n = data[pos + 1] | data[pos + 2] << 8 | data[pos + 3] << 16
        out += data[pos:pos + 4 + n]
        pos += 4 + n
        i += 1
    for idx in sorted(todo):
        for kind in todo[idx]:
            out += b"\0\0\0\0" if kind == "stored" else b"\0\x01\0\0\0"
    return bytes(out)


def container_rule_violations(data: bytes) -> list[str]:
    """Container rules for *library output* (C05)."""
    bad = []
    pos = 0
    total_plain = 0
    i = 0
    data = bytes(data)
    while pos < len(data):
        if data[pos] != 0:
            bad.append(f"chunk {i}: marker {data[pos]:#x}")
            return bad
        if pos + 4 > len(data):
            bad.append(f"chunk {i}: header truncated")
            return bad
        n = data[pos + 1] | data[pos + 2] << 8 | data[pos + 3] << 16
        payload = data[pos + 4:pos + 4 + n]
        if len(payload) != n:
            bad.append(f"chunk {i}: length field {n} but {len(payload)} bytes follow")
            return bad
        u = snappy_ok(payload)
        size = len(u) if u is not None else len(payload)
        if size > 65536:
            bad.append(f"chunk {i}: {size} plaintext bytes > 65536")
        if size == 0:
            bad.append(f"chunk {i}: empty chunk")
        total_plain += size
        pos += 4 + n
        i += 1
    try:
        for hdr, ai, msgs in segments(plain(data)):
            pass
    except IWAError as e:
        bad.append(f"segments: {e}")
    except Exception as e:  # protobuf DecodeError
        bad.append(f"segments: {type(e).__name__}")
    return bad
