"""Last-writer-wins edge model for cell borders (C15).

H[(r, c)], r in 0..R : the horizontal unit edge above cell (r, c) = below cell (r-1, c)
V[(r, c)], c in 0..C : the vertical unit edge left of cell (r, c) = right of cell (r, c-1)
A stroke (side, row, col, length, border) overwrites the unit edges it runs along.
Interior edges of merged rectangles are invisible and strokes on them are ignored.
"""
from __future__ import annotations


class Edges:
    def __init__(self, rows, cols, merges=()):
        self.R, self.C = rows, cols
        self.H = {}
        self.V = {}
        self.merges = [tuple(m) for m in merges]

    def h_interior(self, r, c):
        return any(r0 < r <= r1 and c0 <= c <= c1 for r0, c0, r1, c1 in self.merges)

    def v_interior(self, r, c):
        return any(c0 < c <= c1 and r0 <= r <= r1 for r0, c0, r1, c1 in self.merges)

    def edges_of_stroke(self, side, row, col, length):
        for k in range(length):
            if side == "top":
                yield ("H", row, col + k)
            elif side == "bottom":
                yield ("H", row + 1, col + k)
            elif side == "left":
                yield ("V", row + k, col)
            else:
                yield ("V", row + k, col + 1)

    def stroke(self, side, row, col, length, border):
        """border: any comparable descriptor.  -> list of edges ignored because interior to a merge."""
        ignored = []
        for kind, r, c in self.edges_of_stroke(side, row, col, length):
            if (kind == "H" and self.h_interior(r, c)) or (kind == "V" and self.v_interior(r, c)):
                ignored.append((kind, r, c))
                continue
            (self.H if kind == "H" else self.V)[(r, c)] = border
        return ignored

    def expected(self, r, c):
        """-> {side: descriptor | None} as cell (r, c) must report it."""
        return {
            "top": None if self.h_interior(r, c) else self.H.get((r, c)),
            "bottom": None if self.h_interior(r + 1, c) else self.H.get((r + 1, c)),
            "left": None if self.v_interior(r, c) else self.V.get((r, c)),
            "right": None if self.v_interior(r, c + 1) else self.V.get((r, c + 1)),
        }
