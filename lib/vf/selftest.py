"""Self-tests of the reference models against hand-written cases from the docs (run by setup_cmd)."""
import sys
from decimal import Decimal


def main():
    from vf.ref import a1, d128, cellrec
    assert [a1.col_name(i) for i in (0, 25, 26, 27, 51, 52, 701, 702, 18277)] == ["A", "Z", "AA", "AB", "AZ", "BA", "ZZ", "AAA", "ZZZ"]
    assert all(a1.col_index(a1.col_name(i)) == i for i in range(0, 18278, 7))
    assert a1.parse_cell("$AB$12") == (11, 27, True, True)
    assert a1.cell_name(0, 0) == "A1" and a1.cell_name(9, 27, True, False) == "AB$10"
    # decimal128: 1 x 10^0
    b = bytearray(16); b[0] = 1; b[14] = (0x1820 & 0x7F) << 1; b[15] = 0x1820 >> 7
    assert d128.decode(bytes(b)) == Decimal(1)
    for v in ("0", "1", "-1", "12", "0.1", "123456789012345", "1E+200", "-9.99E-200"):
        assert d128.same_number(d128.decode(d128.encode(Decimal(v))), Decimal(v)), v
    # cell record: number with formula id
    r = cellrec.encode(2, {"d128": d128.encode(Decimal("1.5")), "formula_id": 7, "num_format_id": 9})
    d = cellrec.decode(r)
    assert d["type"] == 2 and d["formula_id"] == 7 and d["num_format_id"] == 9 and d["end"] == len(r) == 12 + 16 + 8
    assert cellrec.length_for(d["flags"]) == len(r)
    from vf.ref import iwa
    from numbers_parser.generated.TSPArchiveMessages_pb2 import ArchiveInfo
    ai = ArchiveInfo(identifier=5)
    mi = ai.message_infos.add(); mi.type = 1; mi.version.extend([1, 0, 5]); mi.length = 3
    p = iwa.build([(ai, [b"abc"])] * 3)
    f, amb = iwa.frame(p, cuts=[1, 5], stored=lambda i: i == 1)
    segs = iwa.decode(f)
    assert len(segs) == 3 and segs[0][2] == [b"abc"] and iwa.plain(f) == p
    assert iwa.container_rule_violations(f) == []
    assert iwa.container_rule_violations(b"\x01" + f[1:])
    print("vf selftest ok")


if __name__ == "__main__":
    sys.exit(main())
