"""nsan - the "numbers sanitizer": inline recording contracts on the real functions.

Installed from the harness by rebinding module / class attributes (no edit of the
repository).  Every contract *records and returns True* (V6: monitors do not perturb); the
post-conditions are icontract.ensure decorators, exceptional exits are observed by a small
try/except recorder underneath (icontract does not run post-conditions on a raise).
A per-contract counter of evaluations goes into every evidence file; zero evaluations of an
owned contract makes the run inconclusive (V3), enforced through the properties' floors.
"""
from __future__ import annotations

import functools
import struct
import traceback

import icontract

_rec = None
_installed: set[str] = set()
_local: dict = {}


def _count(name, n=1):
    _rec.counters["contract:" + name] += n


def _vio(owner, sub, fields, detail=None):
    _rec.violation(sub, fields, detail, case=None, owner=owner)


def _ensure(cond):
    return icontract.ensure(cond)


def _wrap_classmethod(cls, name, decorate):
    raw = cls.__dict__[name]
    func = raw.__func__
    setattr(cls, name, classmethod(decorate(func)))


# ------------------------------------------------------------------------------------
# C01: decimal128 pack / unpack exactness
def _install_d128_exact():
    from numbers_parser import cell as cellmod
    from vf.ref import d128

    def pack_exact(value, result) -> bool:
        _count("d128_exact.pack")
        try:
            got = d128.decode(bytes(result))
            want = d128.exact_of_float(value)
            if not d128.same_number(got, want):
                kind = "int" if float(value).is_integer() else "frac"
                _vio("C01", "d128_pack", {"kind": kind}, {"value": repr(value), "decoded": str(got)})
        except Exception as e:
            _vio("C01", "d128_pack", {"kind": "monitor-exception"}, {"value": repr(value), "exc": repr(e)})
        return True

    def unpack_exact(buffer, result) -> bool:
        _count("d128_exact.unpack")
        try:
            want = float(d128.decode(bytes(buffer)))
            if result != want:
                _vio("C01", "d128_unpack", {"kind": "inexact"}, {"buffer": bytes(buffer).hex(), "got": repr(result), "want": repr(want)})
        except Exception as e:
            _vio("C01", "d128_unpack", {"kind": "monitor-exception"}, {"exc": repr(e)})
        return True

    cellmod._pack_decimal128 = _ensure(pack_exact)(cellmod._pack_decimal128)
    cellmod._unpack_decimal128 = _ensure(unpack_exact)(cellmod._unpack_decimal128)


# ------------------------------------------------------------------------------------
# C04: record encode / decode against the reference codec
_KIND_OF_CLASS = {"NumberCell": ("number", "currency"), "TextCell": ("text",), "DateCell": ("date",), "BoolCell": ("bool",),
                  "DurationCell": ("duration",), "EmptyCell": ("empty",), "RichTextCell": ("rich",),
                  "BulletedTextCell": ("rich",), "ErrorCell": ("error",)}


def check_record_against_cell(cell, buf, rec_violation):
    """Shared by the inline contract and by C04's own workload.  rec_violation(sub, fields, detail)."""
    from vf.ref import cellrec
    cls = type(cell).__name__
    try:
        r = cellrec.decode(buf)
    except cellrec.RecordError as e:
        rec_violation("enc_undecodable", {"cls": cls}, {"buf": bytes(buf).hex(), "err": str(e)})
        return None
    kinds = _KIND_OF_CLASS.get(cls)
    kind = cellrec.TYPES.get(r["type"])
    if kinds is not None and kind not in kinds:
        rec_violation("enc_kind", {"cls": cls, "type": r["type"]}, {"buf": bytes(buf).hex()})
    if r["end"] != len(buf):
        rec_violation("enc_length", {"cls": cls, "extra_bytes": len(buf) - r["end"]}, {"buf": bytes(buf).hex(), "flags": hex(r["flags"])})
    if len(buf) % 4:
        rec_violation("enc_align", {"cls": cls}, {"len": len(buf)})
    for name in cellrec.LIB_IDS:
        if name == "string_id":
            continue  # assigned inside _to_buffer for text cells; checked by the payload rule
        want = getattr(cell, "_" + name, None)
        got = r.get(name)
        if want != got:
            rec_violation("enc_id_slot", {"cls": cls, "field": name}, {"want": want, "got": got, "flags": hex(r["flags"]), "buf": bytes(buf).hex()})
    return r


def _install_record_roundtrip():
    from numbers_parser.cell import Cell

    def record_ok(self, result) -> bool:
        if result is None:
            return True
        _count("record_roundtrip")
        try:
            check_record_against_cell(self, result, lambda sub, f, d: _vio("C04", sub, f, d))
        except Exception as e:
            _vio("C04", "enc_monitor_exception", {"exc": type(e).__name__}, traceback.format_exc()[-600:])
        return True

    Cell._to_buffer = _ensure(record_ok)(Cell._to_buffer)


def check_decoded_cell_against_record(cell, buf, rec_violation):
    from vf.ref import cellrec
    try:
        r = cellrec.decode(buf)
    except cellrec.RecordError:
        return None  # not a well-formed record by the reference reading: nothing to compare
    for name in cellrec.LIB_IDS:
        got = getattr(cell, "_" + name, None)
        want = r.get(name)
        if want != got:
            rec_violation("dec_id_slot", {"field": name, "uninterpreted_bits": hex(r["flags"] & 0x180980)},
                          {"want": want, "got": got, "flags": hex(r["flags"]), "buf": bytes(buf).hex()})
    kinds = _KIND_OF_CLASS.get(type(cell).__name__)
    kind = cellrec.TYPES.get(r["type"])
    if kinds is not None and kind not in kinds:
        rec_violation("dec_kind", {"cls": type(cell).__name__, "type": r["type"]}, {"buf": bytes(buf).hex()})
    # the payload, where the record's kind says which field carries it
    try:
        got = cell.value
        if kind in ("number", "currency") and "d128" in r:
            from vf.ref import d128
            dd = d128.decode(r["d128"])
            want = float(dd)
            if not (isinstance(got, (int, float)) and not isinstance(got, bool) and float(got) == want):
                rec_violation("dec_payload", {"payload": "d128", "coefficient_digits": "<=17" if len(dd.as_tuple().digits) <= 17 else ">17"},
                              {"want": repr(want), "got": repr(got), "d128": bytes(r["d128"]).hex()})
        elif kind == "date" and "seconds" in r:
            from datetime import datetime, timedelta
            want = datetime(2001, 1, 1) + timedelta(seconds=r["seconds"])
            if got != want:
                rec_violation("dec_payload", {"payload": "seconds"}, {"want": repr(want), "got": repr(got)})
        elif kind == "bool" and "double" in r:
            if got is not (r["double"] > 0):
                rec_violation("dec_payload", {"payload": "bool"}, {"want": r["double"] > 0, "got": repr(got)})
        elif kind == "duration" and "double" in r:
            from datetime import timedelta
            if got != timedelta(seconds=r["double"]):
                rec_violation("dec_payload", {"payload": "duration"}, {"want": r["double"], "got": repr(got)})
    except (OverflowError, ValueError):
        pass  # a payload outside the range of the host type (e.g. a date beyond year 9999): nothing to compare
    return r


def _install_record_decode():
    from numbers_parser.cell import Cell

    def decode_ok(buffer, result) -> bool:
        _count("record_decode")
        try:
            check_decoded_cell_against_record(result, buffer, lambda sub, f, d: _vio("C04", sub, f, d))
        except Exception as e:
            _vio("C04", "dec_monitor_exception", {"exc": type(e).__name__}, traceback.format_exc()[-600:])
        return True

    _wrap_classmethod(Cell, "_from_storage", _ensure(decode_ok))


# ------------------------------------------------------------------------------------
# C05: container codec
def _install_iwa():
    from numbers_parser.iwafile import IWAFile
    from vf.ref import iwa

    def encode_ok(self, result) -> bool:
        _count("iwa_encode")
        try:
            bad = iwa.container_rule_violations(result)
            for b in bad[:3]:
                _vio("C05", "container_rule", {"rule": b.split(":")[-1].strip()[:40]}, {"msg": b, "filename": self.filename})
        except Exception as e:
            _vio("C05", "enc_monitor_exception", {"exc": type(e).__name__}, traceback.format_exc()[-600:])
        return True

    def decode_ok(data, result) -> bool:
        _count("iwa_decode")
        try:
            segs = iwa.decode(bytes(data))
        except Exception:
            return True  # the reference does not call this well-formed; nothing to compare
        try:
            archives = [a for c in result.chunks for a in c.archives]
            if len(archives) != len(segs):
                _vio("C05", "dec_segments", {"kind": "count"}, {"lib": len(archives), "ref": len(segs)})
                return True
            for a, (hdr, ai, msgs) in zip(archives, segs):
                if a.header.identifier != ai.identifier or len(a.objects) != len(msgs):
                    _vio("C05", "dec_segments", {"kind": "header"}, {"lib": a.header.identifier, "ref": ai.identifier})
        except Exception as e:
            _vio("C05", "dec_monitor_exception", {"exc": type(e).__name__}, traceback.format_exc()[-600:])
        return True

    IWAFile.to_buffer = _ensure(encode_ok)(IWAFile.to_buffer)
    _wrap_classmethod(IWAFile, "from_buffer", _ensure(decode_ok))


# ------------------------------------------------------------------------------------
# C10: A1 conversions
def _install_a1():
    from numbers_parser import xrefs
    from vf.ref import a1

    def col_name_ok(col, col_abs, result) -> bool:
        _count("a1_inverse.col")
        try:
            want = ("$" if col_abs else "") + a1.col_name(col)
            if result != want:
                _vio("C10", "col_name", {"kind": "mismatch"}, {"col": col, "got": result, "want": want})
        except Exception as e:
            _vio("C10", "col_name", {"kind": "monitor:" + type(e).__name__}, {"col": col})
        return True

    def rowcol_to_cell_ok(row, col, row_abs, col_abs, result) -> bool:
        _count("a1_inverse.cell")
        try:
            want = a1.cell_name(row, col, row_abs, col_abs)
            if result != want:
                _vio("C10", "cell_name", {"kind": "mismatch"}, {"row": row, "col": col, "got": result, "want": want})
        except Exception as e:
            _vio("C10", "cell_name", {"kind": "monitor:" + type(e).__name__}, {"row": row, "col": col})
        return True

    def cell_to_rowcol_ok(cell_str, result) -> bool:
        _count("a1_inverse.parse")
        p = a1.parse_cell(cell_str) if isinstance(cell_str, str) else None
        if p is not None and tuple(result) != (p[0], p[1]):
            _vio("C10", "cell_parse", {"kind": "mismatch"}, {"text": cell_str, "got": list(result), "want": [p[0], p[1]]})
        return True

    xrefs.xl_col_to_name = _ensure(col_name_ok)(xrefs.xl_col_to_name)
    xrefs.xl_rowcol_to_cell = _ensure(rowcol_to_cell_ok)(xrefs.xl_rowcol_to_cell)
    xrefs.xl_cell_to_rowcol = _ensure(cell_to_rowcol_ok)(xrefs.xl_cell_to_rowcol)
    # modules that did `from numbers_parser.xrefs import xl_...` hold their own binding
    import numbers_parser.cell as c
    import numbers_parser.document as d
    import numbers_parser.model as m
    for mod in (c, d, m):
        for name in ("xl_col_to_name", "xl_rowcol_to_cell", "xl_cell_to_rowcol"):
            if hasattr(mod, name):
                setattr(mod, name, getattr(xrefs, name))


# ------------------------------------------------------------------------------------
# C18: tokenizer
def _install_tokens():
    from numbers_parser import tokenizer as tk

    orig_init = tk.Tokenizer.__init__

    def lossless(self, formula) -> bool:
        _count("tokens_lossless")
        try:
            got = "".join(t.value for t in self.items)
            if got != formula:
                _vio("C18", "lossless", {"kind": "concat"}, {"formula": formula, "tokens": [t.value for t in self.items]})
        except Exception as e:
            _vio("C18", "lossless", {"kind": "monitor:" + type(e).__name__}, {"formula": formula})
        return True

    checked = _ensure(lossless)(orig_init)

    @functools.wraps(orig_init)
    def init(self, formula):
        try:
            return checked(self, formula)
        except tk.TokenizerError:
            _count("tokens_lossless.rejected")
            raise
        except Exception as e:
            _count("tokens_lossless.escaped")
            _vio("C18", "total", {"exc": type(e).__name__}, {"formula": formula})
            raise

    tk.Tokenizer.__init__ = init


# ------------------------------------------------------------------------------------
# C19: ItemsList indexing
def _install_items_index():
    from numbers_parser.containers import ItemsList

    orig = ItemsList.__getitem__

    @functools.wraps(orig)
    def getitem(self, key):
        _count("items_index")
        items = list(self._items)
        n = len(items)
        try:
            res = orig(self, key)
        except IndexError:
            if isinstance(key, int) and not isinstance(key, bool) and -n <= key < n:
                _vio("C19", "index", {"kind": "raised-inside-range"}, {"key": key, "n": n})
            raise
        except KeyError:
            raise
        if isinstance(key, int) and not isinstance(key, bool):
            if not (-n <= key < n):
                _vio("C19", "index", {"kind": "no-IndexError-outside-range", "side": "negative" if key < 0 else "positive"}, {"key": key, "n": n})
            elif res is not items[key]:
                _vio("C19", "index", {"kind": "wrong-item"}, {"key": key, "n": n})
        elif isinstance(key, str):
            if getattr(res, "name", None) != key:
                _vio("C19", "name_lookup", {"kind": "wrong-name"}, {"key": key, "got": getattr(res, "name", None)})
        return res

    ItemsList.__getitem__ = getitem


# ------------------------------------------------------------------------------------
# C17: container load error types
def _install_container_errors():
    from numbers_parser.exceptions import FileError, FileFormatError, UnsupportedError
    # ObjectStore lives in containers.py
    from numbers_parser import containers

    target_cls = containers.ObjectStore
    orig = target_cls.__init__

    @functools.wraps(orig)
    def init(self, *a, **k):
        _count("container_errors")
        try:
            return orig(self, *a, **k)
        except (FileError, FileFormatError, UnsupportedError):
            _count("container_errors.library_error")
            raise
        except Exception as e:
            frame = "?"
            for fs in reversed(traceback.extract_tb(e.__traceback__)):
                if "/numbers_parser/" in fs.filename and "/generated/" not in fs.filename:
                    frame = fs.name
                    break
            _local["last_container_escape"] = (type(e).__name__, frame)
            _count("container_errors.escaped")
            raise

    target_cls.__init__ = init


# ------------------------------------------------------------------------------------
# C06: data list lookups
def _install_datalist_key():
    from numbers_parser import model as modelmod

    DL = modelmod.DataLists
    orig_lookup_value = DL.lookup_value

    @functools.wraps(orig_lookup_value)
    def lookup_value(self, table_id, key):
        _count("datalist_key.lookup_value")
        try:
            res = orig_lookup_value(self, table_id, key)
        except KeyError:
            _count("datalist_key.KeyError")
            _local.setdefault("datalist_keyerrors", []).append((table_id, key, getattr(self, "_datalist_name", "?")))
            raise
        try:
            k = getattr(res, "key", None)
            if k is not None and k != key:
                _vio("C06", "datalist_entry_key", {"kind": "entry.key != key"}, {"key": key, "entry_key": k})
        except Exception:
            pass
        return res

    DL.lookup_value = lookup_value


# ------------------------------------------------------------------------------------
# C15: stroke order
def _install_stroke_order():
    from numbers_parser import model as modelmod

    M = modelmod._NumbersModel
    orig = M.add_stroke

    def _max_order(self, table_id):
        try:
            table_obj = self.objects[table_id]
            return self.objects[table_obj.stroke_sidecar.identifier].max_order
        except Exception:
            return None

    @functools.wraps(orig)
    def add_stroke(self, table_id, row, col, side, border_value, length):
        before = _max_order(self, table_id)
        res = orig(self, table_id, row, col, side, border_value, length)
        _count("stroke_order")
        after = _max_order(self, table_id)
        if before is None or after is None:
            _count("stroke_order.unobservable")
            return res
        if not after > before:
            _vio("C15", "stroke_order", {"kind": "max_order-not-increasing"}, {"before": before, "after": after})
        stamp = getattr(border_value, "_order", None)
        if stamp != after:
            _vio("C15", "stroke_order", {"kind": "stamp-not-max"}, {"stamp": stamp, "max": after})
        return res

    M.add_stroke = add_stroke


# ------------------------------------------------------------------------------------
# C09: reference events.  node_to_ref (node -> CellRange) and CellRange.__str__ (CellRange -> text)
# are recorded as events {host table, host cell, node, range, text}; C09's oracle (independent
# denotation + resolver) judges them.  The denotation half is judged inline.
def _install_ref_events():
    from numbers_parser import model as modelmod
    from numbers_parser import xrefs
    from vf.ref import formula as F

    M = modelmod._NumbersModel
    orig_ntr = M.node_to_ref
    orig_str = xrefs.CellRange.__str__
    events = _local.setdefault("ref_events", [])

    @functools.wraps(orig_ntr)
    def node_to_ref(self, table_id, row, col, node):
        res = orig_ntr(self, table_id, row, col, node)
        _count("ref_denotation")
        try:
            rows, cols, flags = F.denote(node, (row, col), "")
            lib_rows = None if res.row_start is None else (res.row_start, res.row_start if res.row_end is None else res.row_end)
            lib_cols = None if res.col_start is None else (res.col_start, res.col_start if res.col_end is None else res.col_end)
            single = not node.HasField("AST_colon_tract")
            lib_flags = (bool(res.row_start_is_abs), bool(res.row_start_is_abs if single else res.row_end_is_abs),
                         bool(res.col_start_is_abs), bool(res.col_start_is_abs if single else res.col_end_is_abs))
            # the stored target table, from the node's own UUID and the tables' own base ids - not from the library's resolution of it
            stored_to = None
            if node.HasField("AST_cross_table_reference_extra_info"):
                from numbers_parser.numbers_uuid import NumbersUUID
                want_uuid = NumbersUUID(node.AST_cross_table_reference_extra_info.table_id).hex
                stored_to = "unknown"
                for sid in self.sheet_ids():
                    for tid in self.table_ids(sid):
                        if self.table_base_id(tid) == want_uuid:
                            stored_to = tid
            ev = {"table_id": table_id, "host": (row, col), "node": node, "range": res, "den": (rows, cols, tuple(bool(x) for x in flags)), "text": None,
                  "to_table_id": res.to_table_id if stored_to in (None, "unknown") else stored_to, "lib_to_table_id": res.to_table_id}
            if stored_to not in (None, "unknown") and res.to_table_id != stored_to:
                _vio("C09", "ref_denotation", {"what": "target-table", "tract": node.HasField("AST_colon_tract")},
                     {"host": [row, col], "lib": res.to_table_id, "stored": stored_to, "host_table": table_id})
            res._vf_event = ev
            events.append(ev)
            if (lib_rows, lib_cols) != (rows, cols):
                _vio("C09", "ref_denotation", {"what": "coordinates", "tract": not single},
                     {"host": [row, col], "lib": [lib_rows, lib_cols], "stored": [rows, cols]})
            elif lib_flags != tuple(bool(x) for x in flags):
                _vio("C09", "ref_denotation", {"what": "absolute-flags", "tract": not single}, {"host": [row, col], "lib": lib_flags, "stored": list(flags)})
        except ValueError as e:
            _count("ref_denotation.not_comparable")
            res._vf_event = None
        except Exception as e:  # noqa: BLE001
            _vio("C09", "ref_denotation", {"what": "monitor:" + type(e).__name__}, traceback.format_exc()[-400:])
        return res

    @functools.wraps(orig_str)
    def cell_range_str(self):
        ev = getattr(self, "_vf_event", None)
        try:
            txt = orig_str(self)
        except Exception as e:  # noqa: BLE001
            _count("ref_text.raised")
            if ev is not None:
                ev["text"] = ("raised", type(e).__name__)
            raise
        _count("ref_text")
        if ev is not None:
            ev["text"] = txt
        return txt

    M.node_to_ref = node_to_ref
    xrefs.CellRange.__str__ = cell_range_str


CONTRACTS = {
    "d128_exact": _install_d128_exact,
    "record_roundtrip": _install_record_roundtrip,
    "record_decode": _install_record_decode,
    "iwa": _install_iwa,
    "a1_inverse": _install_a1,
    "tokens_lossless": _install_tokens,
    "items_index": _install_items_index,
    "container_errors": _install_container_errors,
    "datalist_key": _install_datalist_key,
    "stroke_order": _install_stroke_order,
    "ref_events": _install_ref_events,
}


def install(rec, names):
    """Install the named contracts (idempotent per process).  A contract that cannot be
    installed (an internal was renamed) makes the run inconclusive, never held."""
    global _rec
    _rec = rec
    for n in names:
        if n in _installed:
            continue
        try:
            CONTRACTS[n]()
            _installed.add(n)
        except Exception:
            rec.inconclusive(f"contract {n} could not be installed: " + traceback.format_exc()[-300:])


def local(name, default=None):
    return _local.get(name, default)


def pop_local(name, default=None):
    return _local.pop(name, default)


def flush(rec):
    pass
