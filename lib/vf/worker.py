"""Worker: python -m vf.worker <ID> <spec.json> <out.json> <shard-no>

Runs one shard of one property's workload with the monitors installed and dumps the
recorder.  A crash of the worker (non-zero exit, no output) is observed by the parent.
"""
from __future__ import annotations

import faulthandler
import importlib
import json
import os
import sys
import traceback
import warnings

from vf.rec import Recorder


def install_reach_counters(rec: Recorder, names: dict[str, str]):
    """Count entries into the library functions a property anchors in, through
    sys.monitoring PY_START (own tool id).  `names`: qualname-suffix -> counter name.
    Code objects we are not interested in return DISABLE, so they pay once."""
    mon = getattr(sys, "monitoring", None)
    if mon is None or not names:
        return
    tool = 4
    try:
        mon.use_tool_id(tool, "vf-reach")
    except ValueError:
        return
    root = os.path.join(os.environ.get("VERIF_REPO", "/repo"), "src", "numbers_parser") + os.sep
    wanted = dict(names)
    cache: dict = {}
    counters = rec.counters

    def on_start(code, offset):
        c = cache.get(code)
        if c is None:
            c = False
            if code.co_filename.startswith(root):
                q = code.co_qualname
                for suffix, name in wanted.items():
                    if q == suffix or q.endswith("." + suffix):
                        c = "reach:" + name
                        break
            cache[code] = c
        if c is False:
            return mon.DISABLE
        counters[c] += 1
        return None

    mon.register_callback(tool, mon.events.PY_START, on_start)
    mon.set_events(tool, mon.events.PY_START)


def main():
    pid, spec_path, out_path, shard = sys.argv[1:5]
    faulthandler.enable()
    with open(spec_path) as f:
        spec = json.load(f)
    if isinstance(spec, dict) and spec.get("tz"):
        # a shard may run under another local time zone (one with daylight saving time): what the library stores for naive
        # date-times and reads back must not depend on where the process runs
        import time
        os.environ["TZ"] = spec["tz"]
        time.tzset()
    mod = importlib.import_module(f"vf.props.{pid.lower()}")
    rec = Recorder(pid, int(shard))
    warnings.simplefilter("always")
    if not os.environ.get("VERIF_NO_REACH"):
        install_reach_counters(rec, getattr(mod, "REACH", {}))
    try:
        from vf import nsan
        nsan.install(rec, mod.contracts_for(spec) if hasattr(mod, "contracts_for") else getattr(mod, "CONTRACTS", ()))
    except Exception:
        rec.inconclusive("nsan install failed: " + traceback.format_exc()[-400:])
    try:
        with warnings.catch_warnings():
            warnings.simplefilter("ignore")
            if spec.get("part") == "suite-under-monitors":
                from vf import suite_engine
                suite_engine.run(rec, pid, list(getattr(mod, "SUITE_CONTRACTS", getattr(mod, "CONTRACTS", ()))))
            elif "replay" in spec:
                if hasattr(mod, "replay"):
                    mod.replay(spec["replay"], rec)
                else:
                    mod.run_shard({"cases": [spec["replay"]], "seed": spec.get("seed", 0), "tier": spec.get("tier", "quick")}, rec)
            else:
                mod.run_shard(spec, rec)
    except Exception:
        rec.inconclusive("worker exception: " + traceback.format_exc()[-1500:])
    try:
        from vf import nsan
        nsan.flush(rec)
    except Exception:
        pass
    with open(out_path + ".tmp", "w") as f:
        json.dump(rec.dump(), f)
    os.replace(out_path + ".tmp", out_path)


if __name__ == "__main__":
    main()
