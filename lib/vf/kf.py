"""Known-finding classifier.  known_findings.json is read-only at run time.

An entry:
  {"property": "C16", "key": "c16/row-height-unqueried-reset", "status": "known"|"fixed",
   "what": "<sentence printed after KNOWN-FINDING:>", "commit": "<for fixed>",
   "match": {"sub": "<sub-oracle>" | ["a","b"], "fields": {name: literal | {"in":[..]} |
             {"re": "..."} | {"lt"/"le"/"gt"/"ge": n} | {"any": true}}}}

A violation matches when the property and sub-oracle agree and every listed field
predicate holds on the violation's structured fields (a missing field never matches).
Entries with status "fixed" are history and match nothing.
"""
from __future__ import annotations

import json
import os
import re


def load(home: str) -> list[dict]:
    path = os.path.join(home, "known_findings.json")
    if not os.path.exists(path):
        return []
    with open(path) as f:
        data = json.load(f)
    return data.get("findings", [])


def _pred(p, v) -> bool:
    if isinstance(p, dict):
        if "any" in p:
            return True
        if "in" in p:
            return v in p["in"]
        if "re" in p:
            return isinstance(v, str) and re.search(p["re"], v) is not None
        if "not" in p:
            return not _pred(p["not"], v)
        ok = True
        for op, fn in (("lt", lambda a, b: a < b), ("le", lambda a, b: a <= b),
                       ("gt", lambda a, b: a > b), ("ge", lambda a, b: a >= b)):
            if op in p:
                try:
                    ok = ok and fn(v, p[op])
                except TypeError:
                    return False
        return ok
    return p == v


_MISSING = object()


def matches(entry: dict, vio: dict) -> bool:
    if entry.get("status") != "known":
        return False
    if entry.get("property") != vio.get("property"):
        return False
    m = entry.get("match", {})
    sub = m.get("sub")
    if sub is not None:
        if isinstance(sub, list):
            if vio.get("sub") not in sub:
                return False
        elif sub != vio.get("sub"):
            return False
    fields = vio.get("fields") or {}
    for name, p in (m.get("fields") or {}).items():
        v = fields.get(name, _MISSING)
        if v is _MISSING:
            return False
        if not _pred(p, v):
            return False
    return True


def classify(entries: list[dict], vio: dict):
    for e in entries:
        if matches(e, vio):
            return e
    return None
