"""The fixture corpus: every tests/data/*.numbers (+ the bundled template) and how it opens."""
from __future__ import annotations

import glob
import os
import warnings

REPO = os.environ.get("VERIF_REPO", "/repo")
DATA = os.path.join(REPO, "tests", "data")


def fixture_paths() -> list[str]:
    return sorted(glob.glob(os.path.join(DATA, "*.numbers")))


def template_path() -> str:
    import numbers_parser
    return os.path.join(os.path.dirname(numbers_parser.__file__), "data", "empty.numbers")


def open_doc(path):
    """-> (doc | None, [warning messages], exception | None)"""
    from numbers_parser import Document
    with warnings.catch_warnings(record=True) as w:
        warnings.simplefilter("always")
        try:
            doc = Document(path)
            return doc, [(x.category.__name__, str(x.message)) for x in w], None
        except Exception as e:  # noqa: BLE001
            return None, [(x.category.__name__, str(x.message)) for x in w], e


def readable_fixtures(include_template=True):
    """Paths that open without an unsupported-version warning (the property's corpus)."""
    out = []
    excluded = []
    paths = fixture_paths()
    if include_template and os.path.exists(template_path()):
        paths = paths + [template_path()]
    for p in paths:
        doc, ws, exc = open_doc(p)
        if exc is not None:
            excluded.append((os.path.basename(p), "does not open: " + type(exc).__name__))
        elif any("unsupported version" in m.lower() or "not tested" in m.lower() for _, m in ws):
            excluded.append((os.path.basename(p), "unsupported-version warning"))
        else:
            out.append(p)
    return out, excluded


def all_tables(doc):
    for s in doc.sheets:
        for t in s.tables:
            yield s, t
