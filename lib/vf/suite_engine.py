"""Engine "suite under monitors": one shard that runs the unedited test suite of the repository
with the given contracts installed and merges what the monitors recorded into the shard's
recorder.  Violations keep the owner the contract gives them."""
import glob
import json
import os
import subprocess
import sys


def run(rec, prop, contracts, jobs=8, select=None, timeout=1800):
    from vf.gen import docs
    repo = os.environ.get("VERIF_REPO", "/repo")
    out = os.path.join(docs.scratch_dir(), "suite-out")
    env = dict(os.environ)
    env.update({"VF_SUITE_OUT": out, "VF_SUITE_PROP": prop, "VF_SUITE_CONTRACTS": ",".join(contracts)})
    cmd = [sys.executable, "-m", "pytest", "-q", "-p", "no:cacheprovider", "-p", "vf.pytest_nsan", "--no-cov", "-n", str(jobs), "--timeout=900",
           "-x" if False else "--continue-on-collection-errors"]
    if select:
        cmd += select
    try:
        p = subprocess.run(cmd, cwd=repo, env=env, capture_output=True, text=True, timeout=timeout)
        tail = (p.stdout or "")[-300:]
    except subprocess.TimeoutExpired:
        rec.inconclusive("suite under monitors: watchdog")
        return
    files = glob.glob(os.path.join(out, "*.json"))
    if not files:
        rec.inconclusive("suite under monitors: no monitor output (" + tail.replace("\n", " ")[-200:] + ")")
        return
    nproc = 0
    for f in files:
        with open(f) as fh:
            d = json.load(fh)
        nproc += 1
        for k, v in d["counters"].items():
            rec.counters["suite:" + k] += v
        for v in d["violations"] + d["foreign"]:
            rec.violation(v["sub"], {**(v["fields"] or {}), "origin": "suite"}, v["detail"], case=None, owner=v["property"])
    rec.count("suite_processes", nproc)
    rec.note("suite under monitors: " + tail.replace("\n", " ")[-160:])
