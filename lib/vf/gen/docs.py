"""Document recipes: JSON-serialisable operation lists executed against the public API.

A recipe is {"init": {...Document kwargs...} | {"fixture": path}, "ops": [op, ...]}.
`apply_op` is the thin client at the API boundary; the history workloads wrap it with the
event log (vf.events).  Generators here produce *in-contract* recipes that exercise the
editing API broadly (used by C02, C05, C06, C07, C16 as "documents the library itself can
produce").
"""
from __future__ import annotations

import os
import random
import warnings

from vf.gen import values as V

PATTERNS = ["solid", "dashes", "dots", "none"]
SIDES = ["top", "right", "bottom", "left"]


def new_document(init):
    from numbers_parser import Document
    if "fixture" in init:
        return Document(init["fixture"])
    return Document(**{k: v for k, v in init.items()})


def table_of(doc, tbl):
    return doc.sheets[tbl[0]].tables[tbl[1]]


def apply_op(doc, op, state=None):
    """Execute one operation.  state: dict for styles/custom formats created by earlier ops."""
    from numbers_parser import RGB, Alignment, BackgroundImage, Border
    state = state if state is not None else {}
    k = op["op"]
    if k == "add_sheet":
        kw = {}
        for name in ("sheet_name", "table_name", "num_rows", "num_cols"):
            if name in op:
                kw[name] = op[name]
        return doc.add_sheet(**kw)
    if k == "rename_sheet":
        doc.sheets[op["sheet"]].name = op["name"]
        return None
    if k == "add_table":
        kw = {}
        for name in ("table_name", "x", "y", "num_rows", "num_cols", "num_header_rows", "num_header_cols"):
            if name in op:
                kw[name] = op[name]
        return doc.sheets[op["sheet"]].add_table(**kw)
    if k == "add_style":
        kw = dict(op["kw"])
        if "font_color" in kw:
            kw["font_color"] = RGB(*kw["font_color"])
        if "bg_color" in kw:
            kw["bg_color"] = RGB(*kw["bg_color"])
        if "alignment" in kw:
            kw["alignment"] = Alignment(*kw["alignment"])
        if "bg_image" in kw:
            kw["bg_image"] = BackgroundImage(bytes.fromhex(kw["bg_image"]["hex"]), kw["bg_image"]["filename"])
        st = doc.add_style(**kw)
        state.setdefault("styles", {})[op["id"]] = st
        return st
    if k == "add_custom_format":
        from numbers_parser import PaddingType
        kw = dict(op["kw"])
        for pk in ("integer_format", "decimal_format"):
            if pk in kw:
                kw[pk] = PaddingType[kw[pk]]
        cf = doc.add_custom_format(**kw)
        state.setdefault("formats", {})[op["id"]] = cf
        return cf
    t = table_of(doc, op["tbl"])
    if k == "write":
        if "style" in op:
            return t.write(op["r"], op["c"], V.dec(op["v"]), style=state["styles"][op["style"]])
        return t.write(op["r"], op["c"], V.dec(op["v"]))
    if k == "write_a1":
        return t.write(op["ref"], V.dec(op["v"]))
    if k in ("add_row", "add_column", "delete_row", "delete_column"):
        kw = {}
        if "n" in op:
            kw["num_rows" if "row" in k else "num_cols"] = op["n"]
        if "start" in op:
            kw["start_row" if "row" in k else "start_col"] = op["start"]
        if "default" in op:
            kw["default"] = V.dec(op["default"])
        return getattr(t, k)(**kw)
    if k == "rename_table":
        t.name = op["name"]
        return None
    if k == "merge":
        return t.merge_cells(op["range"])
    if k == "set_style":
        return t.set_cell_style(op["r"], op["c"], state["styles"][op["style"]])
    if k == "border":
        b = Border(op["width"], RGB(*op["color"]), op["pattern"])
        return t.set_cell_border(op["r"], op["c"], op["side"], b, op.get("length", 1))
    if k == "format":
        kw = dict(op.get("kw", {}))
        _decode_format_kwargs(kw)
        return t.set_cell_formatting(op["r"], op["c"], op["type"], **kw)
    if k == "custom_format":
        return t.set_cell_formatting(op["r"], op["c"], "custom", format=state["formats"][op["format"]])
    if k == "caption":
        t.caption = op["text"]
        return None
    if k == "caption_enabled":
        t.caption_enabled = op["v"]
        return None
    if k == "name_enabled":
        t.table_name_enabled = op["v"]
        return None
    if k == "header_rows":
        t.num_header_rows = op["n"]
        return None
    if k == "header_cols":
        t.num_header_cols = op["n"]
        return None
    if k == "row_height":
        return t.row_height(op["r"], op["h"])
    if k == "col_width":
        return t.col_width(op["c"], op["w"])
    raise ValueError(f"unknown op {k}")


def _decode_format_kwargs(kw):
    from numbers_parser import ControlFormattingType, FractionAccuracy, NegativeNumberStyle
    if "negative_style" in kw:
        kw["negative_style"] = NegativeNumberStyle[kw["negative_style"]]
    if "fraction_accuracy" in kw:
        kw["fraction_accuracy"] = FractionAccuracy[kw["fraction_accuracy"]]
    if "control_format" in kw:
        kw["control_format"] = ControlFormattingType[kw["control_format"]]


def build(recipe, on_op=None):
    """-> (doc, state).  Warnings are swallowed here (V8: they are data only where an oracle
    refers to them; the history workloads record them through the event log instead)."""
    with warnings.catch_warnings():
        warnings.simplefilter("ignore")
        doc = new_document(recipe["init"])
        state = {}
        for op in recipe["ops"]:
            apply_op(doc, op, state)
            if on_op:
                on_op(doc, op)
    return doc, state


def save(doc, path, package=False):
    with warnings.catch_warnings(record=True) as w:
        warnings.simplefilter("always")
        doc.save(path, package=package)
    return [(x.category.__name__, str(x.message)) for x in w]


# ------------------------------------------------------------------------------------------
# generators
PNG_1x1 = ("89504e470d0a1a0a0000000d4948445200000001000000010802000000907753de0000000c4944415408d763f8cfc000000301010018dd8db0"
           "0000000049454e44ae426082")
PNG_1x1_B = ("89504e470d0a1a0a0000000d49484452000000010000000108060000001f15c4890000000d49444154789c63606060f80f0001040100"
             "5fe5c34b0000000049454e44ae426082")

FONTS = ["Helvetica Neue", "Arial", "Courier New", "Times New Roman", "Menlo", "Georgia"]


def rand_style_kw(rng, ident):
    kw = {"name": f"VF Style {ident}"}
    if rng.random() < .7:
        kw["font_name"] = rng.choice(FONTS)
    if rng.random() < .7:
        kw["font_size"] = rng.randrange(2, 193) / 2.0
    if rng.random() < .6:
        kw["font_color"] = [rng.randrange(256) for _ in range(3)]
    for b in ("bold", "italic", "underline", "strikethrough"):
        if rng.random() < .4:
            kw[b] = rng.random() < .6
    if rng.random() < .5:
        kw["alignment"] = [rng.choice(["left", "center", "right", "justified", "auto"]), rng.choice(["top", "middle", "bottom"])]
    c = rng.random()
    if c < .4:
        kw["bg_color"] = [rng.randrange(256) for _ in range(3)]
    elif c < .5:
        kw["bg_image"] = {"hex": rng.choice([PNG_1x1, PNG_1x1_B]), "filename": rng.choice(["vf-a.png", "vf-b.png"])}
    if rng.random() < .3:
        kw["text_wrap"] = rng.random() < .5
    if rng.random() < .3:
        kw["text_inset"] = rng.randrange(0, 40) / 2.0
    if rng.random() < .3:
        kw["first_indent"] = rng.randrange(0, 40) / 2.0
    if rng.random() < .3:
        kw["left_indent"] = rng.randrange(0, 40) / 2.0
    if rng.random() < .3:
        kw["right_indent"] = rng.randrange(0, 40) / 2.0
    return kw


def rand_number_format(rng):
    """-> (type, kw) for a NumberCell."""
    t = rng.choice(["number", "currency", "percentage", "scientific", "fraction", "base"])
    kw = {}
    if t in ("number", "currency", "percentage"):
        if rng.random() < .8:
            kw["decimal_places"] = rng.randrange(0, 8)
        if rng.random() < .5:
            kw["show_thousands_separator"] = True
        if rng.random() < .5:
            kw["negative_style"] = rng.choice(["MINUS", "RED", "PARENTHESES", "RED_AND_PARENTHESES"])
        if t == "currency":
            kw["currency_code"] = rng.choice(["GBP", "USD", "EUR", "JPY", "CHF", "AUD"])
            if rng.random() < .3 and kw.get("negative_style", "MINUS") == "MINUS":
                kw["use_accounting_style"] = True
    elif t == "scientific":
        kw["decimal_places"] = rng.randrange(0, 6)
    elif t == "fraction":
        kw["fraction_accuracy"] = rng.choice(["THREE", "TWO", "ONE", "HALVES", "QUARTERS", "EIGTHS", "SIXTEENTHS", "TENTHS", "HUNDRETHS"])
    else:
        kw["base"] = rng.choice([2, 8, 16, 36, 7])
        kw["base_places"] = rng.randrange(0, 6)
    return t, kw


DATE_FORMATS = ["EEEE, d MMMM yyyy", "d MMM y", "dd/MM/yyyy HH:mm:ss", "h:mm a", "yyyy-MM-dd", "EEE d MMM", "HH:mm", "M/d/yy"]


def rand_recipe(rng: random.Random, size="small", fixture=None, allow=("values", "structure", "styles", "borders", "formats", "merges", "geometry", "controls", "tables")):
    """A random in-contract recipe.  size: small (<= 14x10) | tiles (crosses 256 rows) | wide (> 256 cols)."""
    if fixture:
        init = {"fixture": fixture}
        rows, cols = None, None
    else:
        if size == "tiles":
            rows, cols = rng.choice([255, 256, 257, 300, 513]), rng.randint(1, 4)
        elif size == "wide":
            rows, cols = rng.randint(2, 4), rng.choice([256, 257, 300])
        else:
            rows, cols = rng.randint(1, 14), rng.randint(1, 10)
        init = {"num_rows": rows, "num_cols": cols, "num_header_rows": min(rows, rng.choice([0, 1, 1, 2])),
                "num_header_cols": min(cols, rng.choice([0, 1, 1, 2]))}
        if rng.random() < .3:
            init["sheet_name"] = rng.choice(["Données", "Sheet A", "S"])
        if rng.random() < .3:
            init["table_name"] = rng.choice(["Tabelle", "Main", "T"])
    ops = []
    # table registry: (sheet, table) -> [rows, cols] as the recipe believes them (kept in-contract)
    if fixture:
        tables = {}
    else:
        tables = {(0, 0): [rows, cols]}
    nsheets = 1
    ntables = {0: 1}
    styles = []
    formats = []
    merged = {}
    nops = rng.randint(5, 40 if size == "small" else 25)

    def pick_table():
        return rng.choice(sorted(tables))

    def pos(tb, grow=False):
        r, c = tables[tb]
        if grow and rng.random() < .1 and r < 600 and c < 320:
            return rng.randrange(r, r + 3), rng.randrange(c, c + 2)
        return rng.randrange(r), rng.randrange(c)

    if not tables:
        return {"init": init, "ops": []}
    for _ in range(nops):
        kind = rng.choice(allow)
        tb = pick_table()
        R, C = tables[tb]
        if kind == "values":
            for _ in range(rng.randint(1, 6)):
                r, c = pos(tb, grow=True)
                if (tb, r, c) in merged:
                    continue
                ops.append({"op": "write", "tbl": list(tb), "r": r, "c": c, "v": V.enc(V.rand_value(rng))})
                tables[tb] = [max(tables[tb][0], r + 1), max(tables[tb][1], c + 1)]
        elif kind == "structure" and not any(k[0] == tb for k in merged):
            which = rng.choice(["add_row", "add_column", "delete_row", "delete_column"])
            axis = 0 if "row" in which else 1
            n = rng.choice([1, 1, 2, 3])
            size_ax = tables[tb][axis]
            if which.startswith("add"):
                if size_ax + n > (700 if axis == 0 else 330):
                    continue
                op = {"op": which, "tbl": list(tb), "n": n}
                if rng.random() < .5:
                    op["start"] = rng.randrange(size_ax)
                if rng.random() < .3:
                    op["default"] = V.enc(V.rand_value(rng, "sif"))
                tables[tb][axis] += n
            else:
                if size_ax - n < 1:
                    continue
                op = {"op": which, "tbl": list(tb), "n": n}
                if rng.random() < .5:
                    op["start"] = rng.randrange(0, size_ax - n + 1)
                tables[tb][axis] -= n
            ops.append(op)
        elif kind == "styles":
            if not styles or rng.random() < .4:
                ident = len(styles)
                ops.append({"op": "add_style", "id": ident, "kw": rand_style_kw(rng, ident)})
                styles.append(ident)
            r, c = pos(tb)
            ops.append({"op": "set_style", "tbl": list(tb), "r": r, "c": c, "style": rng.choice(styles)})
        elif kind == "borders":
            r, c = pos(tb)
            if any(k[0] == tb for k in merged):
                continue
            side = rng.choice(SIDES)
            maxlen = (C - c) if side in ("top", "bottom") else (R - r)
            ops.append({"op": "border", "tbl": list(tb), "r": r, "c": c, "side": side, "width": rng.randrange(1, 41) / 4.0,
                        "color": [rng.randrange(256) for _ in range(3)], "pattern": rng.choice(PATTERNS[:3]), "length": rng.randint(1, max(1, min(maxlen, 4)))})
        elif kind == "formats":
            r, c = pos(tb)
            if (tb, r, c) in merged:
                continue
            which = rng.random()
            if which < .55:
                ops.append({"op": "write", "tbl": list(tb), "r": r, "c": c, "v": V.enc(V.rand_value(rng, "if"))})
                t, kw = rand_number_format(rng)
                if t == "base":
                    ops[-1]["v"] = V.enc(rng.randrange(0, 10 ** 6))
                ops.append({"op": "format", "tbl": list(tb), "r": r, "c": c, "type": t, "kw": kw})
            elif which < .75:
                ops.append({"op": "write", "tbl": list(tb), "r": r, "c": c, "v": V.enc(V.rand_datetime(rng).replace(microsecond=0))})
                ops.append({"op": "format", "tbl": list(tb), "r": r, "c": c, "type": "datetime", "kw": {"date_time_format": rng.choice(DATE_FORMATS)}})
            else:
                ident = len(formats)
                ctype = rng.choice(["number", "datetime", "text"])
                kw = {"name": f"VF Format {ident}", "type": ctype}
                if ctype == "number":
                    kw.update({"integer_format": rng.choice(["NONE", "ZEROS", "SPACES"]), "num_integers": rng.randrange(0, 6),
                               "decimal_format": rng.choice(["NONE", "ZEROS", "SPACES"]), "num_decimals": rng.randrange(0, 5),
                               "show_thousands_separator": rng.random() < .5})
                    val = V.rand_value(rng, "if")
                elif ctype == "datetime":
                    kw["format"] = rng.choice(DATE_FORMATS)
                    val = V.rand_datetime(rng).replace(microsecond=0)
                else:
                    kw["format"] = rng.choice(["%s", "before %s after", "x%s"])
                    val = rng.choice(["abc", "text", "é"])
                ops.append({"op": "add_custom_format", "id": ident, "kw": kw})
                formats.append(ident)
                ops.append({"op": "write", "tbl": list(tb), "r": r, "c": c, "v": V.enc(val)})
                ops.append({"op": "custom_format", "tbl": list(tb), "r": r, "c": c, "format": ident})
        elif kind == "controls":
            r, c = pos(tb)
            if (tb, r, c) in merged:
                continue
            which = rng.choice(["tickbox", "rating", "slider", "stepper", "popup"])
            if which == "tickbox":
                ops.append({"op": "write", "tbl": list(tb), "r": r, "c": c, "v": V.enc(rng.random() < .5)})
                ops.append({"op": "format", "tbl": list(tb), "r": r, "c": c, "type": "tickbox"})
            elif which == "rating":
                ops.append({"op": "write", "tbl": list(tb), "r": r, "c": c, "v": V.enc(float(rng.randrange(0, 6)))})
                ops.append({"op": "format", "tbl": list(tb), "r": r, "c": c, "type": "rating"})
            elif which in ("slider", "stepper"):
                ops.append({"op": "write", "tbl": list(tb), "r": r, "c": c, "v": V.enc(float(rng.randrange(1, 100)))})
                kw = {"minimum": 1.0, "maximum": 100.0, "increment": rng.choice([1.0, 0.5, 5.0])}
                if rng.random() < .5:
                    kw["control_format"] = rng.choice(["NUMBER", "CURRENCY", "PERCENTAGE", "SCIENTIFIC", "FRACTION", "BASE"])
                ops.append({"op": "format", "tbl": list(tb), "r": r, "c": c, "type": which, "kw": kw})
            else:
                vals = ["Cat", "Dog", "Rabbit"]
                ops.append({"op": "write", "tbl": list(tb), "r": r, "c": c, "v": V.enc(rng.choice(vals))})
                ops.append({"op": "format", "tbl": list(tb), "r": r, "c": c, "type": "popup", "kw": {"popup_values": vals, "allow_none": rng.random() < .5}})
        elif kind == "merges" and R >= 2 and C >= 2:
            r0 = rng.randrange(R - 1)
            c0 = rng.randrange(C - 1)
            r1 = rng.randrange(r0, min(R, r0 + 3))
            c1 = rng.randrange(c0, min(C, c0 + 3))
            if rng.random() < .25 and C <= 40:
                # as wide as the table and two or more rows deep: the rows below the first consist of placeholders only
                c0, c1 = 0, C - 1
                r1 = min(R - 1, r0 + rng.randint(1, 2))
            elif rng.random() < .1 and R <= 40:
                r0, r1 = 0, R - 1
                c1 = min(C - 1, c0 + 1)
            if (r0, c0) == (r1, c1):
                continue
            cells = [(tb, r, c) for r in range(r0, r1 + 1) for c in range(c0, c1 + 1)]
            if any(x in merged for x in cells):
                continue
            from vf.ref import a1
            ops.append({"op": "merge", "tbl": list(tb), "range": a1.cell_name(r0, c0) + ":" + a1.cell_name(r1, c1)})
            for x in cells:
                merged[x] = True
        elif kind == "geometry":
            which = rng.choice(["caption", "caption_enabled", "name_enabled", "row_height", "col_width", "header_rows", "header_cols", "rename_table", "rename_sheet"])
            if which == "caption":
                ops.append({"op": "caption", "tbl": list(tb), "text": rng.choice(["A caption", "", "Légende\nligne 2", "数"])})
            elif which in ("caption_enabled", "name_enabled"):
                ops.append({"op": which, "tbl": list(tb), "v": rng.random() < .5})
            elif which == "row_height":
                ops.append({"op": "row_height", "tbl": list(tb), "r": rng.randrange(R), "h": rng.randrange(10, 300)})
            elif which == "col_width":
                ops.append({"op": "col_width", "tbl": list(tb), "c": rng.randrange(C), "w": rng.randrange(10, 400)})
            elif which == "header_rows":
                ops.append({"op": "header_rows", "tbl": list(tb), "n": rng.randrange(0, min(R, 5) + 1)})
            elif which == "header_cols":
                ops.append({"op": "header_cols", "tbl": list(tb), "n": rng.randrange(0, min(C, 5) + 1)})
            elif which == "rename_table":
                ops.append({"op": "rename_table", "tbl": list(tb), "name": f"Renamed {len(ops)}"})
            else:
                ops.append({"op": "rename_sheet", "sheet": tb[0], "name": f"Sheet R{len(ops)}"})
        elif kind == "tables":
            if rng.random() < .5 and nsheets < 3:
                nr, nc = rng.randint(1, 6), rng.randint(1, 5)
                ops.append({"op": "add_sheet", "sheet_name": f"VF Sheet {nsheets + 1}", "table_name": rng.choice(["Table 1", "First", "T"]), "num_rows": nr, "num_cols": nc})
                tables[(nsheets, 0)] = [nr, nc]
                ntables[nsheets] = 1
                nsheets += 1
            else:
                sh = rng.randrange(nsheets)
                if ntables[sh] >= 3:
                    continue
                nr, nc = rng.randint(1, 6), rng.randint(1, 5)
                op = {"op": "add_table", "sheet": sh, "table_name": f"VF Table {sh}-{ntables[sh] + 1}", "num_rows": nr, "num_cols": nc,
                      "num_header_rows": min(nr, rng.choice([0, 1])), "num_header_cols": min(nc, rng.choice([0, 1]))}
                if rng.random() < .5:
                    op["x"] = float(rng.randrange(0, 500))
                    op["y"] = float(rng.randrange(0, 900))
                ops.append(op)
                tables[(sh, ntables[sh])] = [nr, nc]
                ntables[sh] += 1
    return {"init": init, "ops": ops}


def scratch_dir():
    d = os.environ.get("VERIF_SCRATCH")
    if not d:
        import tempfile
        d = tempfile.mkdtemp(prefix="vf-scratch-")
    os.makedirs(d, exist_ok=True)
    return d
