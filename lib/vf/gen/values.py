"""Value domains of C01 and their JSON encoding (replay files must be plain data)."""
from __future__ import annotations

import random
from datetime import datetime, timedelta

STRINGS = [
    "", " ", "  leading and trailing  ", "a", "hello world", "line1\nline2", "tab\there", "NUL\x00inside", "quote\"s'and,commas",
    "é", "ß→∑", "日本語テキスト", "𝔘𝔫𝔦𝔠𝔬𝔡𝔢", "👩‍👩‍👧‍👦", "é combining", "‏RTL עברית", "﻿BOM", "=SUM(A1)", "TRUE", "1.5", "-0",
    "nan", "  ", "\r\n", " ", "x" * 1000, "퟿�", "\U0010ffff",
]


def enc(v):
    if isinstance(v, bool):
        return {"t": "b", "v": v}
    if isinstance(v, int):
        return {"t": "i", "v": v}
    if isinstance(v, float):
        return {"t": "f", "v": repr(v)}
    if isinstance(v, str):
        return {"t": "s", "v": v}
    if isinstance(v, datetime):
        return {"t": "dt", "v": [v.year, v.month, v.day, v.hour, v.minute, v.second, v.microsecond]}
    if isinstance(v, timedelta):
        return {"t": "td", "v": [v.days, v.seconds, v.microseconds]}
    if v is None:
        return {"t": "n"}
    raise TypeError(type(v))


def dec(e):
    t = e["t"]
    if t in ("b", "i", "s"):
        return e["v"]
    if t == "f":
        return float(e["v"])
    if t == "dt":
        return datetime(*e["v"])
    if t == "td":
        return timedelta(days=e["v"][0], seconds=e["v"][1], microseconds=e["v"][2])
    if t == "n":
        return None
    raise ValueError(t)


def rand_float15(rng: random.Random) -> float:
    """A finite float that *is* a decimal of <= 15 significant digits, 1e-290 <= |x| <= 1e290."""
    nd = rng.randint(1, 15)
    m = rng.randrange(10 ** (nd - 1), 10 ** nd)
    c = rng.random()
    if c < .5:
        e = rng.randint(-nd - 3, 6)
    elif c < .8:
        e = rng.randint(-40, 40)
    else:
        e = rng.randint(-290, 290 - nd)
    s = f"{'-' if rng.random() < .4 else ''}{m}e{e}"
    x = float(s)
    if x != 0 and not (1e-290 <= abs(x) <= 1e290):
        return rand_float15(rng)
    return x


FLOAT_BOUNDARY = [0.0, -0.0, 1.0, -1.0, 0.1, 0.2, 0.3, 1.1, 2.675, 1e15 - 1, 999999999999999.0, 99999999999999.9, 0.000123456789012345,
                  1e-290, 1e290, 123456789012345e275, 1e-5, 1e-7, 1e16 / 10, 12.0, 52.0, 1234.5, 0.5, 1e22, 1.234e21, 4.35, 0.07, 1e100]


# different strings that are canonically equivalent (equal after Unicode normalisation), or equal ignoring case: a store that
# keys strings by anything but the string itself merges them
EQUIVALENT = ["caf\u00e9", "cafe\u0301", "\u212b", "\u00c5", "A\u030a", "\u2126", "\u03a9", "\ufb01n", "fin", "Stra\u00dfe", "STRASSE", "strasse",
              "\u1e9b\u0323", "\u1e9b\u0323".encode().decode(), "\u017f\u0323\u0307", "x\u0323\u0307", "x\u0307\u0323", "abc", "ABC", "abc ", " abc", "a\u00a0b", "a b"]


def rand_string(rng: random.Random) -> str:
    c = rng.random()
    if c < .27:
        return rng.choice(STRINGS)
    if c < .35:
        return rng.choice(EQUIVALENT)
    if c < .4:
        return "long:" + "".join(rng.choice("abc déf\n") for _ in range(rng.choice([5000, 100_000])))
    n = rng.randint(1, 12)
    out = []
    for _ in range(n):
        k = rng.random()
        if k < .5:
            cp = rng.randrange(0x20, 0x7F)
        elif k < .8:
            cp = rng.randrange(0xA0, 0xD800)
        elif k < .9:
            cp = rng.randrange(0xE000, 0x10000)
        else:
            cp = rng.randrange(0x10000, 0x110000)
        out.append(chr(cp))
    return "".join(out)


def rand_datetime(rng: random.Random) -> datetime:
    c = rng.random()
    if c < .15:
        return rng.choice([datetime(2001, 1, 1), datetime(2000, 12, 31, 23, 59, 59), datetime(2001, 1, 1, 0, 0, 1), datetime(1, 1, 1),
                           datetime(9999, 12, 31, 23, 59, 59), datetime(1970, 1, 1), datetime(1900, 1, 1), datetime(2100, 12, 31, 23, 59, 59, 999999),
                           datetime(2000, 2, 29, 12), datetime(1999, 12, 31, 23, 59, 59, 500000)])
    if c < .55:  # whole seconds anywhere
        days = rng.randrange(0, (datetime(9999, 12, 31) - datetime(1, 1, 1)).days)
        return datetime(1, 1, 1) + timedelta(days=days, seconds=rng.randrange(86400))
    days = rng.randrange(0, (datetime(2100, 12, 31) - datetime(1900, 1, 1)).days)
    return datetime(1900, 1, 1) + timedelta(days=days, seconds=rng.randrange(86400), microseconds=rng.randrange(10 ** 6))


def rand_timedelta(rng: random.Random) -> timedelta:
    c = rng.random()
    if c < .15:
        return rng.choice([timedelta(0), timedelta(microseconds=1), timedelta(microseconds=-1), timedelta(seconds=1), timedelta(days=36500),
                           timedelta(days=-36500), timedelta(hours=1, minutes=1, seconds=1, milliseconds=1), timedelta(weeks=1)])
    if c < .5:
        return timedelta(seconds=rng.randrange(-10 ** 6, 10 ** 6))
    return timedelta(days=rng.randrange(-36500, 36500), seconds=rng.randrange(86400), microseconds=rng.randrange(10 ** 6))


def rand_value(rng: random.Random, kinds="sbifdt"):
    k = rng.choice(kinds)
    if k == "s":
        return rand_string(rng)
    if k == "b":
        return rng.random() < .5
    if k == "i":
        c = rng.random()
        if c < .4:
            return rng.randrange(-1000, 1000)
        return rng.randrange(-10 ** 15 + 1, 10 ** 15)
    if k == "f":
        return rng.choice(FLOAT_BOUNDARY) if rng.random() < .2 else rand_float15(rng)
    if k == "d":
        return rand_datetime(rng)
    return rand_timedelta(rng)


def same_value(written, read) -> bool:
    """Equality as C01 states it: same type class and equal value (floats: same double;
    sign of zero not demanded)."""
    if isinstance(written, bool):
        return isinstance(read, bool) and read == written
    if isinstance(written, (int, float)):
        return isinstance(read, (int, float)) and not isinstance(read, bool) and float(read) == float(written) and read == written
    if isinstance(written, str):
        return isinstance(read, str) and read == written
    if isinstance(written, datetime):
        return isinstance(read, datetime) and read == written
    if isinstance(written, timedelta):
        return isinstance(read, timedelta) and read == written
    return written is None and read is None


EXPECTED_CLASS = {str: "TextCell", bool: "BoolCell", int: "NumberCell", float: "NumberCell", datetime: "DateCell", timedelta: "DurationCell"}
