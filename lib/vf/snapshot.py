"""Observable snapshot of a Document through the public API only.

Everything C02/C06/C16 (and parts of C15) compare.  An accessor that raises is recorded as
("raised", type) - a value like any other - so "raises before and after" is equality and
"starts raising" is a difference.  Floats are kept as floats (compared as doubles).
"""
from __future__ import annotations

import math
import warnings


def _get(fn):
    try:
        return fn()
    except Exception as e:  # noqa: BLE001
        return ("raised", type(e).__name__)


def _norm(v):
    if isinstance(v, float) and math.isnan(v):
        return "nan"
    if isinstance(v, list):
        return tuple(_norm(x) for x in v)
    if isinstance(v, tuple):
        return tuple(_norm(x) for x in v)
    return v


def cell_snapshot(cell, content=True, style=False):
    d = {"cls": type(cell).__name__, "row": cell.row, "col": cell.col}
    if content:
        d["value"] = _norm(_get(lambda: cell.value))
        d["formula"] = _get(lambda: cell.formula)
        d["formatted"] = _get(lambda: cell.formatted_value)
        d["is_bulleted"] = _get(lambda: cell.is_bulleted)
        d["bullets"] = _norm(_get(lambda: cell.bullets))
        d["hyperlinks"] = _norm(_get(lambda: getattr(cell, "hyperlinks", None)))
        d["is_merged"] = _get(lambda: cell.is_merged)
        d["size"] = _norm(_get(lambda: cell.size))
        d["merge_range"] = _get(lambda: cell.merge_range)
    if style:
        d["style"] = style_snapshot(_get(lambda: cell.style))
        d["border"] = border_snapshot(_get(lambda: cell.border))
    return d


STYLE_ATTRS = ["alignment", "bg_image", "bg_color", "font_color", "font_size", "font_name", "bold", "italic", "strikethrough", "underline",
               "first_indent", "left_indent", "right_indent", "text_inset", "text_wrap", "name"]


def style_snapshot(st):
    if st is None or (isinstance(st, tuple) and st and st[0] == "raised"):
        return st
    out = {}
    for a in STYLE_ATTRS:
        v = _get(lambda a=a: getattr(st, a))
        if a == "bg_image" and v is not None and not isinstance(v, tuple):
            v = (_get(lambda: v.filename), _get(lambda: len(v.data)))
        if a == "alignment" and v is not None and not (isinstance(v, tuple) and v and v[0] == "raised"):
            v = (str(v[0]), str(v[1])) if hasattr(v, "__getitem__") else str(v)
        if isinstance(v, float):
            v = round(v, 4)
        out[a] = _norm(v) if not isinstance(v, tuple) else tuple(v)
    return out


def border_snapshot(b):
    if b is None or (isinstance(b, tuple) and b and b[0] == "raised"):
        return b
    out = {}
    for side in ("top", "right", "bottom", "left"):
        x = _get(lambda side=side: getattr(b, side))
        if x is None or isinstance(x, tuple):
            out[side] = x
        else:
            out[side] = (round(x.width, 2), tuple(x.color), str(x.style))
    return out


def geometry_snapshot(table):
    g = {}
    g["row_heights"] = [_get(lambda r=r: table.row_height(r)) for r in range(table.num_rows)]
    g["col_widths"] = [_get(lambda c=c: table.col_width(c)) for c in range(table.num_cols)]
    g["height"] = _get(lambda: table.height)
    g["width"] = _get(lambda: table.width)
    g["coordinates"] = _norm(_get(lambda: table.coordinates))
    return g


def labels_snapshot(table):
    return {
        "name": _get(lambda: table.name),
        "num_header_rows": _get(lambda: table.num_header_rows),
        "num_header_cols": _get(lambda: table.num_header_cols),
        "caption": _get(lambda: table.caption),
        "caption_enabled": _get(lambda: table.caption_enabled),
        "table_name_enabled": _get(lambda: table.table_name_enabled),
    }


def table_snapshot(table, content=True, style=False, geometry=False):
    t = {"num_rows": table.num_rows, "num_cols": table.num_cols}
    t.update(labels_snapshot(table))
    if content or style:
        t["cells"] = [[cell_snapshot(c, content, style) for c in row] for row in table.rows()]
    if content:
        t["merge_ranges"] = _norm(_get(lambda: table.merge_ranges))
    if geometry:
        t["geometry"] = geometry_snapshot(table)
    return t


def document_snapshot(doc, content=True, style=False, geometry=False):
    with warnings.catch_warnings():
        warnings.simplefilter("ignore")
        out = []
        for si in range(len(doc.sheets)):
            s = doc.sheets[si]
            tabs = []
            for ti in range(len(s.tables)):
                tabs.append(table_snapshot(s.tables[ti], content, style, geometry))
            out.append({"name": _get(lambda: s.name), "tables": tabs})
    return out


def diff(a, b, path="", out=None, limit=40):
    """Structural diff of two snapshots -> list of (path, a, b)."""
    if out is None:
        out = []
    if len(out) >= limit:
        return out
    if isinstance(a, dict) and isinstance(b, dict):
        for k in list(dict.fromkeys(list(a) + list(b))):
            if k not in a or k not in b:
                out.append((f"{path}.{k}", a.get(k, "<absent>"), b.get(k, "<absent>")))
            else:
                diff(a[k], b[k], f"{path}.{k}", out, limit)
    elif isinstance(a, list) and isinstance(b, list):
        if len(a) != len(b):
            out.append((path + ".len", len(a), len(b)))
        for i, (x, y) in enumerate(zip(a, b)):
            diff(x, y, f"{path}[{i}]", out, limit)
            if len(out) >= limit:
                break
    else:
        same = a == b
        if same and isinstance(a, float) and isinstance(b, float):
            same = a == b
        if not same:
            out.append((path, a, b))
    return out
