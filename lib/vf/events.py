"""API-boundary event log: one record before each call, completed after it returns/raises."""
from __future__ import annotations

import warnings

from vf.rec import jsonable


class EventLog:
    def __init__(self):
        self.records: list[dict] = []

    def call(self, op: dict, fn):
        """-> (record, value).  The exception (if any) is stored on the record as 'exc' (object)."""
        r = {"seq": len(self.records), "op": op}
        self.records.append(r)
        with warnings.catch_warnings(record=True) as w:
            warnings.simplefilter("always")
            try:
                val = fn()
                r["outcome"] = "ret"
            except Exception as e:  # noqa: BLE001
                val = None
                r["outcome"] = "exc"
                r["exc_type"] = type(e).__name__
                r["exc_msg"] = str(e)[:200]
                r["_exc"] = e
        r["warnings"] = [(x.category.__name__, str(x.message)[:200]) for x in w]
        return r, val

    def export(self, last: int | None = None):
        recs = self.records if last is None else self.records[-last:]
        return [jsonable({k: v for k, v in r.items() if not k.startswith("_")}) for r in recs]
