"""C15 - styles and borders applied through the API read back equal, now and after reload.

styles : documents with 1-6 generated styles (every font family known to the library,
         sizes in half points, RGB corners and random, 5x3 alignments, indents/inset in half
         points, wrap, background colour or image) applied to 1-40 cells incl. header cells,
         one style mutated after it was applied; every attribute is read back from every styled
         cell on the reopened file; cells that were not styled keep their previous style.
borders: scripts of 1-25 strokes biased to overlap / abut / supersede, on plain and merged
         tables, judged after every stroke on the open document and after save+reopen against
         ref/edges.py (last writer wins per unit edge, both adjacent cells agree, interior edges
         of merges invisible); exhaustive: every ordered pair of strokes on a 2x2 table.
reading: open a fixture, read style and border of every cell, save; the reopened copy must
         equal an untouched re-save (merely reading never changes what is saved).
Inline contract: stroke_order on _NumbersModel.add_stroke.
"""
from __future__ import annotations

import itertools
import os
import random
import warnings

ID = "C15"
LEVEL = "exploration"
SUITE_UNDER_MONITORS = True  # thorough tier: the unedited repository tests run with this property's contracts loaded
SUITE_CONTRACTS = ("stroke_order",)
CONTRACTS = ("stroke_order",)
REACH = {"Table.set_cell_border": "Table.set_cell_border", "_NumbersModel.add_stroke": "add_stroke", "_NumbersModel.extract_strokes": "extract_strokes",
         "_NumbersModel.set_cell_border": "model.set_cell_border", "Style.from_storage": "Style.from_storage", "_NumbersModel.update_cell_styles": "update_cell_styles",
         "_NumbersModel.update_paragraph_styles": "update_paragraph_styles", "_NumbersModel.add_cell_style": "add_cell_style", "_NumbersModel.add_paragraph_style": "add_paragraph_style",
         "Document.add_style": "Document.add_style"}
ASSUMPTIONS = ["floats are drawn from values exactly representable in the file's float32 fields (half / quarter points); widths are compared after the library's own 2-decimal rounding",
               "setting a border on an interior merged edge is documented to be ignored with a warning and is modelled so; strokes on merged tables have length 1",
               "the read-only part compares against an untouched re-save of the same fixture (what C02 establishes), not against the source"]
STYLE_ATTRS = ["alignment", "bg_image", "bg_color", "font_color", "font_size", "font_name", "bold", "italic", "strikethrough", "underline",
               "first_indent", "left_indent", "right_indent", "text_inset", "text_wrap"]


def rule(tier):
    return ("style cases = documents with 1-6 styles over all font families, half-point sizes 1-96, RGB corners + random, 5x3 alignments, half-point indents/inset, wrap, bg colour or one of two images, "
            "applied to 1-40 cells incl. headers, one mutated after application; border cases = stroke scripts of 1-25 strokes (side, start, length 1-6, quarter-point widths, colour, 3 patterns) "
            "biased to overlap/abut/supersede on plain and merged tables + every ordered pair of strokes on a 2x2 table over 2 widths; read-only cases = fixtures x {style and border of every cell read}. "
            "distinct = distinct (style attribute tuple set) / (stroke script) / fixture; non-trivial = at least one non-default attribute / two strokes sharing an edge")


def floors(tier):
    return {"evaluations": 600 if tier == "quick" else 15000, "distinct": 600 if tier == "quick" else 15000,
            "counters": {"style_documents": 250, "styled_cells_reloaded": 2000, "style_attributes_compared": 30000, "unstyled_cells_compared": 2500, "stroke_scripts": 400,
                         "strokes": 3000, "edges_superseded": 500, "border_cells_judged_open": 20000, "border_cells_judged_reloaded": 5000, "merged_tables": 40,
                         "readonly_fixtures": 40, "contract:stroke_order": 3000, "mutated_after_apply": 60, "bg_images": 30, "near_duplicate_styles": 100, "cells_restyled_after_a_save": 500, "styles_changed_after_a_save": 80, "two_table_stroke_scripts": 60, "border_tables_reshaped_first": 60},
            "hist_sizes": {"font_family": 150 if tier == "quick" else 185}}


def plan(tier, seed):
    specs = []
    n = 300 if tier == "quick" else 6000
    k = 12 if tier == "quick" else 48
    for i in range(k):
        specs.append({"part": "styles", "n": n // k, "stream": i, "k": k, "tier": tier, "seed": seed})
    n = 600 if tier == "quick" else 20000
    for i in range(k):
        specs.append({"part": "borders", "n": n // k, "stream": i, "tier": tier, "seed": seed})
    for i in range(4):
        specs.append({"part": "pairs", "i": i, "k": 4, "tier": tier, "seed": seed})
    from vf import corpus
    ok, _ = corpus.readable_fixtures()
    ok = sorted(ok, key=lambda p: -os.path.getsize(p) if os.path.isfile(p) else 0)
    for p in ok:
        specs.append({"part": "readonly", "path": p, "tier": tier, "seed": seed})
    return specs


# ---------------------------------------------------------------------------------------
def reopen(doc, tag):
    from numbers_parser import Document
    from vf.gen import docs
    path = os.path.join(docs.scratch_dir(), f"c15-{tag}.numbers")
    try:
        docs.save(doc, path)
        with warnings.catch_warnings():
            warnings.simplefilter("ignore")
            return Document(path)
    finally:
        if os.path.exists(path):
            os.remove(path)


def style_tuple(st):
    """Comparable picture of the 15 public attributes."""
    if st is None:
        return None
    out = {}
    for a in STYLE_ATTRS:
        v = getattr(st, a)
        if a == "alignment":
            v = (int(v.horizontal), int(v.vertical))
        elif a == "bg_image":
            v = None if v is None else (v.filename, len(v.data), hash(v.data))
        elif a in ("bg_color", "font_color"):
            v = None if v is None else (tuple(v) if not isinstance(v, list) else tuple(tuple(x) for x in v))
        elif isinstance(v, float):
            v = round(v, 3)
        out[a] = v
    return out


def rand_style(rng, families, ident, images):
    from vf.gen import docs
    # names that are different strings but equal after lower-casing or after turning blanks into hyphens are different styles
    kw = {"name": ["VF {}", "vf-{}", "Vf {}", "VF-{}"][ident % 4].format(ident // 4)}
    kw["font_name"] = families[(ident * 7919 + rng.randrange(len(families))) % len(families)]
    if rng.random() < .8:
        # whole, half, quarter and eighth points (all exact in single precision)
        kw["font_size"] = rng.randrange(2, 193) / 2.0 if rng.random() < .5 else rng.randrange(8, 1544) / 8.0
    if rng.random() < .7:
        kw["font_color"] = rng.choice([[0, 0, 0], [255, 255, 255], [255, 0, 0], [0, 255, 0], [0, 0, 255], [rng.randrange(256) for _ in range(3)]])
    for b in ("bold", "italic", "underline", "strikethrough"):
        if rng.random() < .5:
            kw[b] = rng.random() < .6
    if rng.random() < .7:
        kw["alignment"] = [rng.choice(["left", "center", "right", "justified", "auto"]), rng.choice(["top", "middle", "bottom"])]
    c = rng.random()
    if c < .4:
        # colours whose components spell the same digits when written one after the other are different colours
        kw["bg_color"] = rng.choice([[0, 0, 0], [255, 255, 255], [rng.randrange(256) for _ in range(3)], [1, 23, 4], [12, 3, 4], [1, 2, 34], [11, 1, 1], [1, 11, 1], [1, 1, 11],
                                     [25, 5, 0], [2, 55, 0], [255, 0, 0]])
    elif c < .55:
        k = rng.randrange(2)  # one file name per image: the library stores images by content digest
        # two names of which one ends with the other: an image is found by its name, not by how a name ends
        kw["bg_image"] = {"hex": images[k], "filename": ["vf-a.png", "a.png"][k]}
    if rng.random() < .4:
        kw["text_wrap"] = rng.random() < .5
    for a in ("text_inset", "first_indent", "left_indent", "right_indent"):
        if rng.random() < .35:
            kw[a] = rng.randrange(0, 60) / 2.0
    return kw


def style_case(case, rec):
    from numbers_parser import Document
    from numbers_parser.generated.fontmap import FONT_NAME_TO_FAMILY
    from vf.gen import docs
    rng = random.Random(case["rseed"])
    families = sorted(set(FONT_NAME_TO_FAMILY.values()))
    R, C = rng.randint(2, 8), rng.randint(2, 6)
    hr, hc = rng.choice([0, 1, 1, 2]), rng.choice([0, 1, 1])
    hr, hc = min(hr, R), min(hc, C)
    with warnings.catch_warnings():
        warnings.simplefilter("ignore")
        doc = Document(num_rows=R, num_cols=C, num_header_rows=hr, num_header_cols=hc)
        base = Document(num_rows=R, num_cols=C, num_header_rows=hr, num_header_cols=hc)
        t = doc.sheets[0].tables[0]
        for r in range(R):
            for c in range(C):
                if rng.random() < .7:
                    v = rng.choice(["text", 1.5, True, "é"])
                    t.write(r, c, v)
                    base.sheets[0].tables[0].write(r, c, v)
        # previous styles of every cell, from an independent identical document saved and reopened
        try:
            base2 = reopen(base, f"b{case['rseed']}")
        except Exception as e:  # noqa: BLE001
            rec.build_failure(f"baseline document: {type(e).__name__}")
            return
        before = [[style_tuple(c.style) for c in row] for row in base2.sheets[0].tables[0].rows()]
        nst = rng.randint(1, 6)
        styles = []
        used_files = {}
        for i in range(nst):
            kw = rand_style(rng, families, case["rseed"] % 1000 * 10 + i, [docs.PNG_1x1, docs.PNG_1x1_B])
            if styles and rng.random() < .5:
                # a near-duplicate: the previous style with exactly one attribute changed (fingerprints / caches must tell them apart)
                prev = dict(styles[-1][0])
                which = rng.choice(["text_wrap", "bold", "italic", "underline", "strikethrough", "font_size", "font_color", "bg_color", "alignment_h", "alignment_v",
                                    "text_inset", "first_indent", "left_indent", "right_indent", "font_name", "bg_color_digits", "bg_color_digits", "indent_digits"])
                prev["name"] = kw["name"]
                if which in ("text_wrap", "bold", "italic", "underline", "strikethrough"):
                    prev[which] = not prev.get(which, which == "text_wrap")
                elif which == "font_size":
                    prev["font_size"] = prev.get("font_size", 11.0) + 1.5
                elif which == "font_color":
                    prev["font_color"] = [(x + 7) % 256 for x in prev.get("font_color", [0, 0, 0])]
                elif which == "bg_color" and "bg_image" not in prev:
                    prev["bg_color"] = [(x + 9) % 256 for x in prev.get("bg_color", [10, 20, 30])]
                elif which == "bg_color_digits" and "bg_image" not in prev and "bg_color" in prev:
                    # another colour whose components, written one after the other, spell the same digits
                    r_, g_, b_ = prev["bg_color"]
                    txt = f"{r_}{g_}{b_}"
                    alts = []
                    for i1 in range(1, len(txt)):
                        for i2 in range(i1 + 1, len(txt)):
                            parts = (txt[:i1], txt[i1:i2], txt[i2:])
                            if all(p_ == "0" or not p_.startswith("0") for p_ in parts) and all(int(p_) < 256 for p_ in parts) and [int(p_) for p_ in parts] != [r_, g_, b_]:
                                alts.append([int(p_) for p_ in parts])
                    if alts:
                        prev["bg_color"] = rng.choice(alts)
                        rec.count("styles_differing_only_by_how_digits_are_split")
                    else:
                        prev["bg_color"] = [(x + 9) % 256 for x in prev["bg_color"]]
                elif which == "indent_digits":
                    # the same for two neighbouring measures: (1.5, 11.5) and (1.51, 1.5) read alike when glued together
                    prev["first_indent"], prev["left_indent"] = (1.5, 11.5) if prev.get("first_indent") != 1.5 else (1.51, 1.5)
                elif which == "alignment_h":
                    a = prev.get("alignment", ["auto", "top"])
                    prev["alignment"] = ["right" if a[0] != "right" else "center", a[1]]
                elif which == "alignment_v":
                    a = prev.get("alignment", ["auto", "top"])
                    prev["alignment"] = [a[0], "bottom" if a[1] != "bottom" else "middle"]
                elif which in ("text_inset", "first_indent", "left_indent", "right_indent"):
                    prev[which] = prev.get(which, 0.0) + 2.5
                elif which == "font_name":
                    prev["font_name"] = kw["font_name"]
                kw = prev
                rec.count("near_duplicate_styles")
                rec.hist("near_duplicate_attr", which)
            if "bg_image" in kw:
                fn = kw["bg_image"]["filename"]
                if fn in used_files and used_files[fn] != kw["bg_image"]["hex"]:
                    kw["bg_image"]["hex"] = used_files[fn]  # a filename names one image per document
                used_files[fn] = kw["bg_image"]["hex"]
                rec.count("bg_images")
            state = {}
            try:
                st = docs.apply_op(doc, {"op": "add_style", "id": i, "kw": kw}, state)
            except IndexError:
                # the same image file name stored twice in one document is refused by the library: share the object instead
                continue
            except Exception as e:  # noqa: BLE001
                rec.violation("add_style_raised", {"exc": type(e).__name__}, {"kw": {k: v for k, v in kw.items() if k != "bg_image"}, "msg": str(e)[:200]}, case=case)
                return
            styles.append((kw, st))
            rec.hist("font_family", kw["font_name"])
        if not styles:
            return
        applied = {}
        ncells = rng.randint(1, min(40, R * C))
        for _ in range(ncells):
            r, c = rng.randrange(R), rng.randrange(C)
            kw, st = rng.choice(styles)
            if rng.random() < .5:
                t.set_cell_style(r, c, st)
            elif rng.random() < .5:
                t.set_cell_style(r, c, st.name)
            else:
                t.write(r, c, "styled", style=st)
            applied[(r, c)] = st
        # mutate one style after it was applied
        if rng.random() < .3:
            kw, st = rng.choice(styles)
            which = rng.choice(["bold", "font_size", "font_color", "bg_color", "alignment", "text_wrap", "left_indent"])
            from numbers_parser import RGB, Alignment
            if which == "bold":
                st.bold = not st.bold
            elif which == "font_size":
                st.font_size = 33.5
            elif which == "font_color":
                st.font_color = RGB(1, 2, 3)
            elif which == "bg_color" and st.bg_image is None:
                st.bg_color = RGB(9, 8, 7)
            elif which == "alignment":
                st.alignment = Alignment("right", "bottom")
            elif which == "text_wrap":
                st.text_wrap = not st.text_wrap
            elif which == "left_indent":
                st.left_indent = 7.5
            rec.count("mutated_after_apply")
        want = {pos: style_tuple(st) for pos, st in applied.items()}
        # open document: the cell reports the style object that was applied
        for (r, c), st in applied.items():
            got = style_tuple(t.cell(r, c).style)
            if got != want[(r, c)]:
                rec.violation("style_readback", {"view": "open", "attr": first_diff(got, want[(r, c)])}, {"pos": [r, c], "got": got, "want": want[(r, c)]}, case=case)
        try:
            doc2 = reopen(doc, str(case["rseed"]))
        except Exception as e:  # noqa: BLE001
            import traceback
            fr = "?"
            for fs in reversed(traceback.extract_tb(e.__traceback__)):
                if "/numbers_parser/" in fs.filename:
                    fr = fs.name
                    break
            rec.violation("save_or_reopen_raised", {"exc": type(e).__name__, "frame": fr, "part": "styles"}, {"msg": str(e)[:200]}, case=case)
            return
        def check_reloaded(doc2, want, stage):
            t2 = doc2.sheets[0].tables[0]
            for r in range(R):
                for c in range(C):
                    got = style_tuple(t2.cell(r, c).style)
                    if (r, c) in want:
                        rec.count("styled_cells_reloaded")
                        rec.count("style_attributes_compared", len(STYLE_ATTRS))
                        w = want[(r, c)]
                        bad = [a for a in STYLE_ATTRS if got[a] != w[a]]
                        if bad:
                            rec.violation("style_readback", {"view": stage, "attr": bad[0], "header_cell": r < hr or c < hc},
                                          {"pos": [r, c], "attrs": {a: [got[a], w[a]] for a in bad[:4]}, "style_name": applied[(r, c)].name}, case=case)
                        if t2.cell(r, c).style.name != applied[(r, c)].name:
                            rec.violation("style_readback", {"view": stage, "attr": "name", "header_cell": r < hr or c < hc},
                                          {"pos": [r, c], "got": t2.cell(r, c).style.name, "want": applied[(r, c)].name}, case=case)
                    else:
                        rec.count("unstyled_cells_compared")
                        if got != before[r][c]:
                            rec.violation("unstyled_cell_changed", {"attr": first_diff(got, before[r][c]), "header_cell": r < hr or c < hc},
                                          {"pos": [r, c], "got": got, "before": before[r][c]}, case=case)
        check_reloaded(doc2, want, "reloaded")
        # the same open document, already saved once, restyled and saved again: a cell that carried a style in the first file
        # shows the new style in full - also when the new style sets nothing but text attributes
        if rng.random() < .6 and applied:
            from numbers_parser import RGB
            try:
                plain = doc.add_style(name=f"Text only {case['rseed'] % 997}", bold=rng.random() < .5, italic=rng.random() < .5,
                                      font_size=float(rng.randrange(8, 40)), font_color=RGB(rng.randrange(256), rng.randrange(256), rng.randrange(256)))
            except Exception as e:  # noqa: BLE001
                rec.violation("add_style_raised", {"exc": type(e).__name__}, {"msg": str(e)[:200], "stage": "after-first-save"}, case=case)
                return
            ours = {st_.name for _, st_ in styles} | {plain.name}
            builtin = [doc.styles[n] for n in sorted(doc.styles) if n not in ours]
            for pos in rng.sample(sorted(applied), max(1, len(applied) // 2)):
                k_ = rng.random()
                # the new style may be one made just now, one of this session's, or one of the document's own, untouched styles
                st = plain if k_ < .45 else rng.choice(styles)[1] if k_ < .7 or not builtin else rng.choice(builtin)
                if k_ >= .7 and builtin:
                    rec.count("cells_restyled_with_a_style_of_the_document")
                t.set_cell_style(pos[0], pos[1], st)
                applied[pos] = st
                rec.count("cells_restyled_after_a_save")
            # a style that is already in the first file changed afterwards - also back to a default value (auto alignment,
            # no bold, the default size), which must overwrite what the first save stored
            if rng.random() < .7:
                from numbers_parser import Alignment
                kw_, st = rng.choice(styles)
                for which in rng.sample(["alignment-auto", "alignment", "bold-off", "italic-off", "font_size", "font_color", "text_wrap", "indents-zero", "bg_color"], rng.randint(1, 3)):
                    if which == "alignment-auto":
                        st.alignment = Alignment("auto", "top")
                    elif which == "alignment":
                        st.alignment = Alignment(rng.choice(["left", "center", "right", "justified"]), rng.choice(["top", "middle", "bottom"]))
                    elif which == "bold-off":
                        st.bold = False
                    elif which == "italic-off":
                        st.italic = False
                    elif which == "font_size":
                        st.font_size = 11.0
                    elif which == "font_color":
                        st.font_color = RGB(0, 0, 0)
                    elif which == "text_wrap":
                        st.text_wrap = True
                    elif which == "indents-zero":
                        st.first_indent = 0.0
                        st.left_indent = 0.0
                        st.right_indent = 0.0
                        st.text_inset = 4.0
                    elif which == "bg_color" and st.bg_image is None:
                        st.bg_color = RGB(255, 255, 255)
                rec.count("styles_changed_after_a_save")
            want = {pos: style_tuple(st) for pos, st in applied.items()}
            try:
                doc3 = reopen(doc, str(case["rseed"]) + "-again")
            except Exception as e:  # noqa: BLE001
                rec.violation("save_or_reopen_raised", {"exc": type(e).__name__, "frame": "?", "part": "styles-second-save"}, {"msg": str(e)[:200]}, case=case)
                return
            check_reloaded(doc3, want, "reloaded-after-restyle")
    rec.count("style_documents")
    rec.case(("styles", case["rseed"]), nontrivial=True)


def first_diff(a, b):
    if a is None or b is None:
        return "none"
    for k in STYLE_ATTRS:
        if a.get(k) != b.get(k):
            return k
    return "?"


def run_styles(spec, rec):
    rng = random.Random(f"C15-styles-{spec['seed']}-{spec['stream']}")
    for i in range(spec["n"]):
        case = {"part": "style", "rseed": rng.randrange(1 << 40)}
        style_case(case, rec)
        if i == 0:
            rec.sample({"style_case": case})


# ---------------------------------------------------------------------------------------
def bdesc(width, color, pattern):
    return (round(width, 2), tuple(color), pattern)


def got_desc(b):
    if b is None:
        return None
    from numbers_parser.cell import BorderType
    return (round(b.width, 2), tuple(b.color), BorderType(b.style).name.lower())


def judge_borders(t, model, rec, case, view, nstrokes, last=None):
    ok = True
    n = 0
    for r in range(model.R):
        for c in range(model.C):
            cell = t.cell(r, c)
            bd = cell.border
            exp = model.expected(r, c)
            n += 1
            for side in ("top", "right", "bottom", "left"):
                got = got_desc(getattr(bd, side)) if bd is not None else None
                if got != exp[side]:
                    fields = {"view": view, "what": "missing" if got is None else "unexpected" if exp[side] is None else "stale-or-wrong"}
                    if last is not None:
                        fields["edge_drawn_before"] = last
                    rec.violation("edge_readback", fields, {"pos": [r, c], "side": side, "got": got, "want": exp[side], "strokes": nstrokes}, case=case)
                    ok = False
                    return ok
    rec.count("border_cells_judged_" + ("open" if view == "open" else "reloaded"), n)
    return ok


def border_case(case, rec):
    """case: {"shape":[R,C], "merges":[...], "strokes":[[side,r,c,len,width,[rgb],pattern(,table)],...], "save_points":[...],
    "tables": 1|2, "prehistory": [...]}.  With two tables the strokes alternate between them (same sides, same row and column
    numbers: the strokes of one table are not the other's); with a prehistory the first table was given its shape by
    deleting and adding rows/columns before the first stroke (a position means the cell that is there now)."""
    from numbers_parser import RGB, Border, Document
    from vf.ref.edges import Edges
    from vf.ref import a1
    R, C = case["shape"]
    ntab = case.get("tables", 1)
    pre = case.get("prehistory", [])
    with warnings.catch_warnings(record=True) as wlog:
        warnings.simplefilter("always")
        r_extra = sum(1 for x in pre if x == "delete_first_row") + sum(1 for x in pre if x == "delete_last_row_then_add")*0
        c_extra = sum(1 for x in pre if x == "delete_first_col")
        doc = Document(num_rows=R + r_extra, num_cols=C + c_extra, num_header_rows=0, num_header_cols=0)
        t = doc.sheets[0].tables[0]
        try:
            for x in pre:
                if x == "delete_first_row":
                    t.delete_row(start_row=0)
                elif x == "delete_first_col":
                    t.delete_column(start_col=0)
                elif x == "delete_last_row_then_add":
                    t.delete_row()
                    t.add_row()
                elif x == "delete_last_col_then_add":
                    t.delete_column()
                    t.add_column()
                rec.count("border_tables_reshaped_first")
        except Exception as e:  # noqa: BLE001 - C03's business
            rec.build_failure(f"border prehistory: {type(e).__name__}")
            return
        tables = [t]
        if ntab == 2:
            tables.append(doc.sheets[0].add_table("Second", num_rows=R, num_cols=C, num_header_rows=0, num_header_cols=0))
            rec.count("two_table_stroke_scripts")
        for m in case["merges"]:
            t.merge_cells(a1.cell_name(m[0], m[1]) + ":" + a1.cell_name(m[2], m[3]))
        models = [Edges(R, C, case["merges"])] + [Edges(R, C, []) for _ in tables[1:]]
        if case["merges"]:
            rec.count("merged_tables")

        def judge_all(doc_, view, step):
            ok = True
            for k_, mdl in enumerate(models):
                tb = doc_.sheets[0].tables[k_]
                ok = judge_borders(tb, mdl, rec, case, view if k_ == 0 else view + "/second-table", step) and ok
            return ok
        for i, stroke in enumerate(case["strokes"]):
            side, r, c, ln, width, color, pattern = stroke[:7]
            k_ = (stroke[7] if len(stroke) > 7 else 0) % len(tables)
            tb, model = tables[k_], models[k_]
            b = Border(width, RGB(*color), pattern)
            edges = list(model.edges_of_stroke(side, r, c, ln))
            before = any(((model.H if k == "H" else model.V).get((rr, cc)) is not None) for k, rr, cc in edges)
            nwarn = len(wlog)
            try:
                tb.set_cell_border(r, c, side, b, ln)
            except Exception as e:  # noqa: BLE001
                rec.violation("set_cell_border_raised", {"exc": type(e).__name__, "merged": bool(case["merges"])}, {"stroke": case["strokes"][i], "msg": str(e)[:200]}, case=case)
                return
            ignored = model.stroke(side, r, c, ln, bdesc(width, color, pattern))
            warned = any("is merged; border not set" in str(x.message) for x in wlog[nwarn:])
            if bool(ignored) != warned and case["merges"] and k_ == 0:
                rec.violation("merged_edge_warning", {"expected_warning": bool(ignored)}, {"stroke": case["strokes"][i]}, case=case)
            rec.count("strokes")
            if before:
                rec.count("edges_superseded")
            if not judge_borders(tb, model, rec, case, "open" if k_ == 0 else "open/second-table", i + 1, last=before):
                return
            if i in case.get("save_points", []):
                try:
                    doc2 = reopen(doc, f"b{i}")
                except Exception as e:  # noqa: BLE001
                    rec.violation("save_or_reopen_raised", {"exc": type(e).__name__, "frame": "?", "part": "borders"}, {"msg": str(e)[:200]}, case=case)
                    return
                if not judge_all(doc2, "reloaded", i + 1):
                    return
        try:
            doc2 = reopen(doc, "bf")
        except Exception as e:  # noqa: BLE001
            rec.violation("save_or_reopen_raised", {"exc": type(e).__name__, "frame": "?", "part": "borders"}, {"msg": str(e)[:200]}, case=case)
            return
        if judge_all(doc2, "reloaded", len(case["strokes"])):
            # the open document after the save
            judge_all(doc, "open", len(case["strokes"]))
    rec.count("stroke_scripts")


def rand_script(rng):
    R, C = rng.randint(2, 6), rng.randint(2, 6)
    merges = []
    if rng.random() < .15:
        r0, c0 = rng.randrange(R - 1), rng.randrange(C - 1)
        merges.append([r0, c0, min(R - 1, r0 + rng.randint(0, 2)), min(C - 1, c0 + rng.randint(1, 2))])
    strokes = []
    n = rng.randint(1, 25)
    for i in range(n):
        same_look = None
        if strokes and rng.random() < .5:
            # overlap / abut / supersede an earlier stroke
            s0 = rng.choice(strokes)
            side, r, c = s0[0], s0[1], s0[2]
            if rng.random() < .3:
                same_look = s0[4:7]  # drawn again with the very same look, but (often) longer or shifted
            k = rng.random()
            if k < .3:
                pass  # exactly the same edge again
            elif k < .6:
                # the same edge from the other side
                if side == "top" and r > 0:
                    side, r = "bottom", r - 1
                elif side == "bottom" and r < R - 1:
                    side, r = "top", r + 1
                elif side == "left" and c > 0:
                    side, c = "right", c - 1
                elif side == "right" and c < C - 1:
                    side, c = "left", c + 1
            else:
                # shifted along the run
                if side in ("top", "bottom"):
                    c = max(0, min(C - 1, c + rng.choice([-1, 1])))
                else:
                    r = max(0, min(R - 1, r + rng.choice([-1, 1])))
        else:
            side = rng.choice(["top", "right", "bottom", "left"])
            r, c = rng.randrange(R), rng.randrange(C)
        maxlen = (C - c) if side in ("top", "bottom") else (R - r)
        ln = 1 if merges else rng.randint(1, min(6, maxlen))
        if same_look is not None:
            strokes.append([side, r, c, ln if merges else rng.randint(1, maxlen), same_look[0], list(same_look[1]), same_look[2]])
        else:
            strokes.append([side, r, c, ln, rng.randrange(1, 41) / 4.0, [rng.randrange(256) for _ in range(3)], rng.choice(["solid", "dashes", "dots"])])
    sp = sorted({rng.randrange(n) for _ in range(rng.choice([0, 0, 1, 2]))})
    case = {"part": "border", "shape": [R, C], "merges": merges, "strokes": strokes, "save_points": sp}
    k = rng.random()
    if k < .25:
        case["tables"] = 2
        for i_, st_ in enumerate(strokes):
            # the same side / row / column numbers in both tables, most of the time
            st_.append(i_ % 2 if rng.random() < .8 else rng.randrange(2))
    elif k < .45 and not merges:
        case["prehistory"] = rng.sample(["delete_first_row", "delete_first_col", "delete_last_row_then_add", "delete_last_col_then_add"], rng.randint(1, 2))
    return case


def run_borders(spec, rec):
    rng = random.Random(f"C15-borders-{spec['seed']}-{spec['stream']}")
    for i in range(spec["n"]):
        case = rand_script(rng)
        border_case(case, rec)
        key = (tuple(case["shape"]), tuple(map(tuple, case["merges"])), tuple((s[0], s[1], s[2], s[3]) for s in case["strokes"]))
        shared = len({e for s in case["strokes"] for e in edge_keys(s)}) < sum(s[3] for s in case["strokes"])
        rec.case(key, nontrivial=shared)
        if i == 0:
            rec.sample({"stroke_script": case["strokes"][:4], "shape": case["shape"], "merges": case["merges"]})


def edge_keys(s):
    side, r, c, ln = s[0], s[1], s[2], s[3]
    for k in range(ln):
        if side == "top":
            yield ("H", r, c + k)
        elif side == "bottom":
            yield ("H", r + 1, c + k)
        elif side == "left":
            yield ("V", r + k, c)
        else:
            yield ("V", r + k, c + 1)


def run_pairs(spec, rec):
    """Every ordered pair of strokes on a 2x2 table over two widths."""
    strokes = []
    for side in ("top", "right", "bottom", "left"):
        for r in range(2):
            for c in range(2):
                maxlen = (2 - c) if side in ("top", "bottom") else (2 - r)
                for ln in range(1, maxlen + 1):
                    strokes.append((side, r, c, ln))
    pairs = list(itertools.product(strokes, strokes))
    mine = pairs[spec["i"]::spec["k"]]
    for j, (a, b) in enumerate(mine):
        w1, w2 = (1.0, 3.0) if j % 2 else (3.0, 1.0)
        case = {"part": "border", "shape": [2, 2], "merges": [],
                "strokes": [[*a, w1, [200, 0, 0], "solid"], [*b, w2, [0, 0, 200], "dashes"]], "save_points": []}
        border_case(case, rec)
        rec.case(("pair", a, b, w1), nontrivial=True)
    rec.sample({"pairs": len(mine), "first": [list(mine[0][0]), list(mine[0][1])] if mine else None})


# ---------------------------------------------------------------------------------------
def run_readonly(spec, rec):
    """Reading style and border of every cell never changes what is saved."""
    from numbers_parser import Document
    from vf import snapshot as S
    path = spec["path"]
    case = {"part": "readonly", "path": path}
    with warnings.catch_warnings():
        warnings.simplefilter("ignore")
        try:
            ref = reopen(Document(path), "ro-ref")
            s_ref = S.document_snapshot(ref, content=True, style=True)
        except Exception as e:  # noqa: BLE001 - an untouched re-save failing is C02's business
            rec.note(f"{os.path.basename(path)}: untouched re-save failed ({type(e).__name__}); not judged here")
            return
        doc = Document(path)
        for s in doc.sheets:
            for t in s.tables:
                for row in t.rows():
                    for c in row:
                        try:
                            _ = c.style
                            _ = c.border
                        except Exception:  # noqa: BLE001
                            rec.count("style_or_border_read_raised")
        try:
            got = reopen(doc, "ro-got")
        except Exception as e:  # noqa: BLE001
            import traceback
            fr = "?"
            for fs in reversed(traceback.extract_tb(e.__traceback__)):
                if "/numbers_parser/" in fs.filename:
                    fr = fs.name
                    break
            rec.violation("save_or_reopen_raised", {"exc": type(e).__name__, "frame": fr, "part": "readonly"}, {"msg": str(e)[:200], "fixture": os.path.basename(path)}, case=case)
            return
        s_got = S.document_snapshot(got, content=True, style=True)
    d = S.diff(s_ref, s_got, limit=6)
    if d:
        what = d[0][0].split(".")[-1]
        rec.violation("reading_changed_what_is_saved", {"field": what}, {"fixture": os.path.basename(path), "diffs": [(p, repr(a)[:80], repr(b)[:80]) for p, a, b in d[:4]]}, case=case)
    rec.count("readonly_fixtures")
    rec.case(("readonly", os.path.basename(path)))
    rec.sample({"readonly_fixture": os.path.basename(path)})


def run_shard(spec, rec):
    if "cases" in spec:
        for c in spec["cases"]:
            replay(c, rec)
        return
    {"styles": run_styles, "borders": run_borders, "pairs": run_pairs, "readonly": run_readonly}[spec["part"]](spec, rec)


def replay(case, rec):
    p = case.get("part")
    if p == "style":
        style_case(case, rec)
    elif p == "border":
        border_case(case, rec)
        rec.case(("replay", str(case)[:100]))
    elif p == "readonly":
        run_readonly({"path": case["path"]}, rec)
