"""C18 - the formula tokenizer is lossless, total, and accepts every formula the reader emits.

Monitors: (1) totality - the only exception type leaving Tokenizer(s) is TokenizerError;
(2) losslessness - token texts concatenate to the input; (3) an independent quote-span
scanner (DESIGN A.7) - no token boundary strictly inside a quoted run; (4) acceptance of every
formula text the library's reader produced (fixtures; generated C08/C09 expressions).
Workload: all strings over a 36-symbol alphabet up to length 4 (quick) / 5 (thorough),
random fragment strings, fixture formulas.
"""
from __future__ import annotations

import itertools
import random

ID = "C18"
LEVEL = "exploration"
SUITE_UNDER_MONITORS = True  # thorough tier: the unedited repository tests run with this property's contracts loaded
SUITE_CONTRACTS = ("tokens_lossless",)
REACH = {"Tokenizer.parse": "Tokenizer.parse", "Tokenizer.parse_string": "parse_string", "Tokenizer.parse_closer": "parse_closer",
         "Tokenizer.parse_opener": "parse_opener", "Tokenizer.check_scientific_notation": "check_scientific_notation"}
ASSUMPTIONS = ["a quoted run is delimited as in DESIGN A.7: \"...\" with \"\" and '...' with '' as content, scanned left to right",
               "nothing is demanded about token types, only texts and totality"]
SIGMA = ['A', 'Z', 'a', 'E', '0', '1', '9', ' ', '.', ':', '$', '!', '#', '"', "'", ',', ';', '(', ')', '{', '}', '+', '-', '*', '/',
         '^', '&', '=', '<', '>', '%', '×', '÷', '≥', '≤', '≠']
FRAG = ['SUM(', 'A1', '$B$2', ':', '"a""b"', "'x y'", "''", '1E+5', '1.5E-3', ',', ';', '{', '}', '(', ')', ' ', '#REF!', '#N/A', 'TRUE',
        'Sheet 1::Table 1::', '≥', '×', '%', '-', '+', '&', '<>', '<=', '::', '"', "'", "'a':'b'", '"', 'IF(', '1E', '9.5E', '#DIV/0!', "'10%'",
        'Table 1::A1:B2', '{1,2;3,4}', '""', "'it''s'", '\t', '\n', 'é', '数', '𝔘',
        # error literals in the case the user typed them, qualifiers in front of quoted names, names next to what can follow them
        '#ref!', '#n/a', '#Div/0!', '#Value!', '#NAME?', '#name?', '#NUM!', '#null!', "Table 1::'a-b'", "Sheet 2::Table 1::'10%'", "::'x'", '$A$1', 'A$1:$B2', 'a1', 'true', 'Sum(']
ENUM_SHARDS = 32


def contracts_for(spec):
    return ("tokens_lossless",) if spec.get("part") in ("corpus", "generated") else ()


def maxlen(tier):
    return 4 if tier == "quick" else 5


def rule(tier):
    L = maxlen(tier)
    return (f"every string of length 0..{L} over the 36-symbol alphabet {''.join(SIGMA)!r} (distinct by construction), "
            "random strings of 1-14 fragments/symbols (distinct by text), every distinct formula text read from the fixtures, and formulas rendered "
            "from generated expressions; a case is non-trivial when the tokenizer was run on it and all four monitors judged the result")


def exhaustive(tier):
    return False  # the short-string sub-domain is exhaustive; the property's domain (all strings) is not


def floors(tier):
    L = maxlen(tier)
    n = sum(36 ** k for k in range(L + 1))
    return {"evaluations": n, "distinct": n,
            "counters": {"enumerated": n, "accepted": n // 20, "rejected_TokenizerError": 1000, "fixture_formulas": 3000,
                         "quoted_spans_seen": 1000, "contract:tokens_lossless": 3000}}


def plan(tier, seed):
    prefixes = [a + b for a in SIGMA for b in SIGMA]
    specs = []
    for i in range(ENUM_SHARDS):
        specs.append({"part": "enum", "prefixes": prefixes[i::ENUM_SHARDS], "short": i == 0, "L": maxlen(tier), "tier": tier, "seed": seed})
    nrand = 200_000 if tier == "quick" else 5_000_000
    k = 4 if tier == "quick" else 16
    for i in range(k):
        specs.append({"part": "random", "n": nrand // k, "stream": i, "tier": tier, "seed": seed})
    from vf import corpus
    paths = corpus.fixture_paths()
    kk = 8
    for i in range(kk):
        specs.append({"part": "corpus", "paths": paths[i::kk], "tier": tier, "seed": seed})
    specs.append({"part": "generated", "tier": tier, "seed": seed})
    return specs


def quoted_spans(s):
    spans = []
    i = 0
    n = len(s)
    while i < n:
        ch = s[i]
        if ch == '"' or ch == "'":
            j = i + 1
            while j < n:
                if s[j] == ch:
                    if j + 1 < n and s[j + 1] == ch:
                        j += 2
                        continue
                    break
                j += 1
            if j < n:
                spans.append((i, j + 1))
                i = j + 1
                continue
            break
        i += 1
    return spans


RECENT = []  # the last inputs given to the tokenizer in this process: what a call does must not depend on them, and a witness carries them


def judge(s, rec, Tokenizer, TokenizerError, must_accept=False, origin="enum"):
    """Runs the tokenizer on s and applies the monitors.  Returns 'ok' | 'rejected' | 'violation'."""
    case = {"s": s, "must_accept": must_accept, "origin": origin, "before": list(RECENT)}
    RECENT.append(s)
    del RECENT[:-8]
    try:
        t = Tokenizer(s)
    except TokenizerError as e:
        if must_accept:
            rec.violation("reader_output_rejected", {"origin": origin}, {"s": s, "err": str(e)[:200]}, case=case)
            return "violation"
        return "rejected"
    except Exception as e:  # noqa: BLE001
        import traceback
        fn = "?"
        for fs in reversed(traceback.extract_tb(e.__traceback__)):
            if fs.filename.endswith("tokenizer.py"):
                fn = fs.name
                break
        rec.violation("total", {"exc": type(e).__name__, "frame": fn}, {"s": s, "msg": str(e)[:100]}, case=case)
        return "violation"
    vals = [x.value for x in t.items]
    if "".join(vals) != s:
        rec.violation("lossless", {"kind": "concat"}, {"s": s, "tokens": vals}, case=case)
        return "violation"
    if '"' in s or "'" in s:
        spans = quoted_spans(s)
        if spans:
            rec.count("quoted_spans_seen", len(spans))
            pos = 0
            bounds = set()
            for v in vals:
                pos += len(v)
                bounds.add(pos)
            for a, b in spans:
                if any(a < p < b for p in bounds):
                    rec.violation("quoted_run_split", {"quote": s[a]}, {"s": s, "tokens": vals, "span": [a, b]}, case=case)
                    return "violation"
    return "ok"


def run_enum(spec, rec):
    from numbers_parser.tokenizer import Tokenizer, TokenizerError
    L = spec["L"]
    n = acc = rej = 0

    def one(s):
        nonlocal n, acc, rej
        n += 1
        r = judge(s, rec, Tokenizer, TokenizerError)
        if r == "ok":
            acc += 1
        elif r == "rejected":
            rej += 1

    if spec.get("short"):
        one("")
        for a in SIGMA:
            one(a)
    for p in spec["prefixes"]:
        for k in range(0, L - 1):
            for tup in itertools.product(SIGMA, repeat=k):
                one(p + "".join(tup))
    rec.bulk(n, n)
    rec.count("enumerated", n)
    rec.count("accepted", acc)
    rec.count("rejected_TokenizerError", rej)
    if spec["prefixes"]:
        s = spec["prefixes"][0] + "'"
        rec.sample({"string": s, "outcome": judge(s, rec, Tokenizer, TokenizerError)})


def run_random(spec, rec):
    from numbers_parser.tokenizer import Tokenizer, TokenizerError
    rng = random.Random(f"C18-{spec['seed']}-{spec['stream']}")
    acc = rej = 0
    for i in range(spec["n"]):
        k = rng.randint(1, 14)
        s = "".join(rng.choice(FRAG) if rng.random() < 0.7 else rng.choice(SIGMA) for _ in range(k))
        r = judge(s, rec, Tokenizer, TokenizerError, origin="random")
        rec.case(s)
        acc += r == "ok"
        rej += r == "rejected"
        if i == 0:
            rec.sample({"string": s, "outcome": r})
    rec.count("accepted", acc)
    rec.count("rejected_TokenizerError", rej)
    rec.count("random_strings", spec["n"])


def run_corpus(spec, rec):
    from numbers_parser.tokenizer import Tokenizer, TokenizerError
    from vf import corpus
    seen = set()
    for p in spec["paths"]:
        doc, ws, exc = corpus.open_doc(p)
        if doc is None:
            continue
        for s, t in corpus.all_tables(doc):
            for row in t.rows():
                for c in row:
                    try:
                        if not c.is_formula:
                            continue
                        f = c.formula
                    except Exception:  # reading is C08/C09's business
                        rec.count("fixture_formula_read_raised")
                        continue
                    if f is None or f in seen:
                        continue
                    seen.add(f)
                    r = judge(f, rec, Tokenizer, TokenizerError, must_accept=True, origin="fixture")
                    rec.case("fx:" + f)
                    rec.count("fixture_formulas")
                    rec.count("accepted", r == "ok")
    if seen:
        rec.sample({"fixture_formula": sorted(seen, key=len)[len(seen) // 2]})


def run_generated(spec, rec):
    """Formula texts rendered by the library from C08's generated expression trees."""
    from numbers_parser.tokenizer import Tokenizer, TokenizerError
    try:
        from vf.props import c08
        texts = c08.rendered_formula_texts(spec["seed"], 300 if spec["tier"] == "quick" else 3000)
    except ImportError:
        rec.note("C08 generator not available; generated-formula acceptance not exercised in this run")
        return
    for f in texts:
        r = judge(f, rec, Tokenizer, TokenizerError, must_accept=True, origin="generated")
        rec.case("gen:" + f)
        rec.count("generated_formulas")
        rec.count("accepted", r == "ok")


def run_shard(spec, rec):
    if "cases" in spec:
        for c in spec["cases"]:
            replay(c, rec)
        return
    {"enum": run_enum, "random": run_random, "corpus": run_corpus, "generated": run_generated}[spec["part"]](spec, rec)


def replay(case, rec):
    from numbers_parser.tokenizer import Tokenizer, TokenizerError
    for b in case.get("before", ()):
        # the calls made before it in the same process (outcomes not judged here)
        try:
            Tokenizer(b)
        except Exception:  # noqa: BLE001
            pass
    judge(case["s"], rec, Tokenizer, TokenizerError, must_accept=case.get("must_accept", False), origin=case.get("origin", "replay"))
    rec.case(case["s"])
