"""C20 - CSV import followed by CSV export reproduces the cell grid.

A generated rectangular grid is written with csv.writer(dialect="excel"), converted with the
csv2numbers entry point (in-process main(), patched argv/streams), exported with
cat-numbers -b (in-process) and parsed back with csv.reader.  Reference (ref: the csv module +
per-cell classification): a cell whose text parses as a *finite* float (after removing
thousands commas) is a number and must come back numerically equal (or as the identical
text); every other cell - including nan/inf spellings - is text and must come back
character for character.  --whitespace strips/collapses data cells first, --reverse
reverses the data rows, --no-header means there is no header row.  A conversion must end in
success or in (one line on stderr and a non-zero SystemExit); anything else is a crash.
A sample of cases is also run as real subprocesses.
"""
from __future__ import annotations

import contextlib
import csv
import io
import math
import os
import random
import re
import subprocess
import sys

ID = "C20"
LEVEL = "exploration"
CONTRACTS = ()
REACH = {"Converter._read_csv": "_read_csv", "Converter._transform_data": "_transform_data", "Converter.save": "Converter.save", "print_table": "cat.print_table",
         "cell_as_string": "cat.cell_as_string"}
ASSUMPTIONS = ["numbers are generated with <= 15 significant digits; a cell the reference classifies as a number may come back as the identical text or in any spelling that parses to the same double",
               "which cells 'are numbers' follows Python float() after removing commas (the converter's documented coercion), restricted to finite values",
               "the empty file and ragged rows are outside 'well-formed rectangular grid' and not generated"]
SPECIAL = ["nan", "NaN", "NAN", "inf", "-inf", "Infinity", "-Infinity", "+inf", "iNf", "1e400", "-1e999", "infinity", "nan "]


def rule(tier):
    return ("cases = (grid, flags): rectangular grids of 1-40 rows x 1-12 columns over cells from {arbitrary Unicode text incl. commas, quotes, CR, LF, CRLF, leading/trailing blanks; "
            "numeric spellings: ints, decimals <= 15 digits, thousands commas, exponents, signs, 1_0, Arabic-Indic digits, .5, 5.; special-float spellings in mixed case; empties}, "
            "unique and duplicate header cells, x {header, --no-header} x --whitespace x --reverse; a sample re-run as subprocesses. "
            "distinct = distinct (grid text, flags); non-trivial = at least 2 cells")


def floors(tier):
    n = 1500 if tier == "quick" else 40000
    return {"evaluations": int(n * .95), "distinct": int(n * .9),
            "counters": {"conversions_ok": int(n * .6), "cells_compared": n * 20, "number_cells": n * 3, "text_cells": n * 5, "special_float_cells": n // 5, "crlf_cells": n // 20,
                         "single_row_or_column_grids": n // 30, "flag:no-header": n // 6, "flag:whitespace": n // 6, "flag:reverse": n // 6, "subprocess_cases": 3}}


def plan(tier, seed):
    n = 1500 if tier == "quick" else 40000
    k = 16 if tier == "quick" else 64
    specs = [{"part": "grids", "n": n // k, "stream": i, "tier": tier, "seed": seed} for i in range(k)]
    specs.append({"part": "subprocess", "n": 4 if tier == "quick" else 40, "tier": tier, "seed": seed})
    return specs


# ---------------------------------------------------------------------------------------
TEXTS = ["abc", "hello world", "a,b", 'say "hi"', "line1\nline2", "cr\rhere", "crlf\r\nhere", " lead", "trail ", "  both  ", "tab\there", "é", "日本", "𝔘", "'apostrophe",
         "=SUM(A1)", "TRUE", "false", "#REF!", "1 2", "12abc", "$5", "5%", "1.2.3", "--5", "e5", "1e", ";", "\"", "\"\"", "a\"b,c\nd", "０１２", " ", "  ", "x" * 300,
         # white space that is not ASCII, inside and at the ends of a cell (--whitespace strips and collapses white space, not ASCII blanks only)
         "a\u00a0b", "a \u2003 b", "x\u3000\u3000y", "p\u2028q", "m\x1fn", "\u00a0lead", "trail\u2003", "n\u00a0\u00a0b\u2009c",
         # characters a decoder or a text layer may treat specially: the byte order mark (as the first character of a cell, and inside), line and paragraph separators
         "\ufeffbom first", "in\ufeffside", "\ufeff", "ls\u2028here", "ps\u2029here", "nel\u0085here", "vt\x0bff\x0c"]
NUMS = ["0", "1", "-1", "42", "007", "+5", "3.14", "-0.5", ".5", "5.", "1e3", "1E-3", "-2.5e+10", "1,234", "1,234,567.89", "12,3", "1_0", "١٢", "۱۲", "  7", "7  ", "123456789012345",
        "0.000123456789012345", "1e15", "-1e-15", "9.99999999999999e14", "1e-290", "00", "-0",
        # magnitudes far from 1: every decimal exponent a double can have is a number a CSV may hold
        "6e33", "5.2e33", "9e300", "6e40", "-7.5e35", "1e40", "1.5e100", "9.99e289", "1e23", "3e25", "1e-40", "6e-33", "2.5e-300", "123456789012345e20"]


def rand_cell(rng):
    c = rng.random()
    if c < .3:
        return rng.choice(TEXTS)
    if c < .6:
        return rng.choice(NUMS)
    if c < .68:
        return rng.choice(SPECIAL)
    if c < .78:
        return ""
    if c < .9:
        n = rng.randint(1, 15)
        m = rng.randrange(10 ** (n - 1), 10 ** n)
        return f"{'-' if rng.random() < .3 else ''}{m}e{rng.randint(-n - 3, 14 - n)}" if rng.random() < .5 else str(m / 100 if n < 14 else m)
    return "".join(chr(rng.choice([rng.randrange(0x20, 0x7F), rng.randrange(0xA0, 0x2000), rng.randrange(0x4E00, 0x4F00)])) for _ in range(rng.randint(1, 8)))


def rand_grid(rng):
    c = rng.random()
    if c < .08:
        R, C = 1, rng.randint(1, 12)
    elif c < .16:
        R, C = rng.randint(1, 40), 1
    elif c < .2:
        R, C = 2, 2
    else:
        R, C = rng.randint(1, 40), rng.randint(1, 12)
    grid = [[rand_cell(rng) for _ in range(C)] for _ in range(R)]
    if rng.random() < .08:
        # a file that looks as if it were delimited by something else: the same number of semicolons / tabs / bars in every
        # line (inside cells), and no or irregular commas - CSV means comma-separated whatever the content suggests
        sep = rng.choice(["; ", ";", "\t", "|", " "])
        col = rng.randrange(C)
        for row in grid:
            row[col] = f"{rng.choice(['Smith', 'de la Cruz', 'x', '12'])}{sep}{rng.choice(['Jane', 'y', '7', 'A B'])}"
        if rng.random() < .5:
            for row in grid:
                for c2 in range(C):
                    if c2 != col and "," in row[c2]:
                        row[c2] = row[c2].replace(",", "")
    dup_header = False
    bom_first = rng.random() < .06
    if rng.random() < .85:
        # header cells: unique, non-empty labels (the common, well-defined case)
        grid[0] = [f"{rng.choice(['col', 'Name', 'Amount', 'h', 'Ünï'])} {i}" if rng.random() < .8 else f"{i}{rng.choice(['', 'x', ' y'])}" for i in range(C)]
    else:
        dup_header = len(set(grid[0])) < len(grid[0])
    if bom_first and not dup_header:
        grid[0][0] = "\ufeff" + (grid[0][0] if classify(grid[0][0])[0] == "text" and grid[0][0].strip() else "first")  # the very first character of the file
        dup_header = len(set(grid[0])) < len(grid[0])
    return grid, dup_header


def classify(s):
    """-> ('num', float) | ('text', s)"""
    try:
        v = float(s.replace(",", ""))
    except ValueError:
        return ("text", s)
    if not math.isfinite(v):
        return ("text", s)
    return ("num", v)


def expected_grid(grid, flags):
    hdr = [] if flags["no_header"] else [list(grid[0])]
    data = [list(r) for r in (grid if flags["no_header"] else grid[1:])]
    if flags["whitespace"]:
        data = [[re.sub(r"\s+", " ", x.strip()) for x in r] for r in data]
    if flags["reverse"]:
        data = list(reversed(data))
    out = []
    for r in hdr:
        out.append([("hdr", x, x) for x in r])
    for r in data:
        out.append([(*classify(x), x) for x in r])
    return out


@contextlib.contextmanager
def patched(argv):
    import numbers_parser._csv2numbers as c2n
    old = (sys.argv, sys.stdout, sys.stderr, c2n.stderr)
    out, err = io.StringIO(), io.StringIO()
    sys.argv, sys.stdout, sys.stderr = argv, out, err
    c2n.stderr = err
    try:
        yield out, err
    finally:
        sys.argv, sys.stdout, sys.stderr, c2n.stderr = old


def run_tool(which, argv):
    """-> (status, stdout, stderr, exc) ; status: 'ok' | 'exit:<code>' | 'crash'"""
    import numbers_parser._cat_numbers as cat
    import numbers_parser._csv2numbers as c2n
    main = c2n.main if which == "csv2numbers" else cat.main
    with patched([which, *argv]) as (out, err):
        try:
            main()
            status, exc = "ok", None
        except SystemExit as e:
            code = e.code if isinstance(e.code, int) else (0 if e.code is None else 1)
            status, exc = ("ok" if code == 0 else f"exit:{code}"), None
        except Exception as e:  # noqa: BLE001
            import traceback
            fr = "?"
            for fs in reversed(traceback.extract_tb(e.__traceback__)):
                if "/numbers_parser/" in fs.filename:
                    fr = fs.name
                    break
            status, exc = "crash", (type(e).__name__, fr, str(e)[:200])
        return status, out.getvalue(), err.getvalue(), exc


RECENT = []  # the last conversions made in this process: a conversion must not depend on them, and a witness carries them


def grid_case(case, rec, subprocess_mode=False):
    from vf.gen import docs
    grid, flags = case["grid"], case["flags"]
    if not subprocess_mode and "before" not in case:
        case["before"] = list(RECENT)
        RECENT.append({"grid": grid, "flags": flags})
        del RECENT[:-3]
    d = docs.scratch_dir()
    tag = case.get("tag", "x")
    src = os.path.join(d, f"c20-{tag}.csv")
    dst = os.path.join(d, f"c20-{tag}.numbers")
    with open(src, "w", newline="", encoding="utf-8") as f:
        csv.writer(f, dialect="excel").writerows(grid)
    argv = []
    for k, opt in (("no_header", "--no-header"), ("whitespace", "--whitespace"), ("reverse", "--reverse")):
        if flags[k]:
            argv.append(opt)
            rec.count("flag:" + opt[2:])
    argv += [src, "-o", dst]
    R, C = len(grid), len(grid[0])
    cells = [x for r in grid for x in r]
    fields = {"shape": "single-row" if R == 1 else "single-col" if C == 1 else "general",
              "dup_header": (not flags["no_header"]) and len(set(grid[0])) < C}
    if R == 1 or C == 1:
        rec.count("single_row_or_column_grids")
    try:
        if subprocess_mode:
            env = dict(os.environ)
            p = subprocess.run([sys.executable, "-m", "numbers_parser._csv2numbers", *argv], capture_output=True, text=True, timeout=300, env=env)
            status = "ok" if p.returncode == 0 else ("crash" if "Traceback" in p.stderr else f"exit:{p.returncode}")
            out, err, exc = p.stdout, p.stderr, (("Traceback", "?", p.stderr[-200:]) if status == "crash" else None)
        else:
            status, out, err, exc = run_tool("csv2numbers", argv)
        if status == "crash":
            has_special = any(classify(x)[0] == "text" and re.fullmatch(r"\s*[+-]?(nan|inf|infinity|\d+e\d{3,})\s*", x, re.I) for x in cells)
            rec.violation("converter_crashed", {"exc": exc[0], "frame": exc[1], "special_float_cell": bool(has_special), "no_data_rows": (R == 1 and not flags["no_header"])},
                          {"msg": exc[2], "flags": flags, "shape": [R, C]}, case=case)
            return
        if status != "ok":
            lines = [ln for ln in err.splitlines() if ln.strip()]
            if len(lines) != 1:
                rec.violation("error_report_not_one_line", {"lines": min(len(lines), 3)}, {"stderr": err[:400], "flags": flags}, case=case)
            else:
                # a well-formed rectangular grid was refused: the grid did not come back
                rec.violation("wellformed_grid_refused", {**fields, "no_data_rows": (R == 1 and not flags["no_header"])}, {"stderr": err[:300], "flags": flags, "shape": [R, C]}, case=case)
            return
        rec.count("conversions_ok")
        if subprocess_mode:
            p = subprocess.run([sys.executable, "-m", "numbers_parser._cat_numbers", "-b", dst], capture_output=True, text=True, timeout=300)
            s2, out2, err2, exc2 = ("ok" if p.returncode == 0 else "crash"), p.stdout, p.stderr, ("Traceback", "?", p.stderr[-200:])
        else:
            s2, out2, err2, exc2 = run_tool("cat-numbers", ["-b", dst])
        if s2 != "ok":
            rec.violation("export_failed", {"status": s2.split(":")[0], "exc": exc2[0] if exc2 else None}, {"stderr": err2[:300], "exc": exc2}, case=case)
            return
        got = list(csv.reader(io.StringIO(out2, newline="")))
        want = expected_grid(grid, flags)
        if len(got) != len(want) or any(len(g) != len(w) for g, w in zip(got, want)):
            extra_row_empty = len(got) == len(want) + 1 and all(x == "" for x in got[-1])
            extra_col_empty = len(got) == len(want) and all(len(g) == len(w) + 1 and g[-1] == "" for g, w in zip(got, want))
            rec.violation("shape", {**fields, "extra": "empty-row" if extra_row_empty else "empty-col" if extra_col_empty else
                                    "empty-row-and-col" if (len(got) == len(want) + 1 and all(len(g) == len(want[0]) + 1 for g in got)) else "other"},
                          {"got": [len(got), len(got[0]) if got else 0], "want": [len(want), len(want[0])], "flags": flags}, case=case)
            return
        for r, (gr, wr) in enumerate(zip(got, want)):
            for c, (g, w) in enumerate(zip(gr, wr)):
                rec.count("cells_compared")
                kind, val, text = w
                if kind == "hdr":
                    ok = g == val or (classify(val)[0] == "num" and classify(g) == classify(val))
                    what = "header"
                elif kind == "num":
                    rec.count("number_cells")
                    ok = g == text or classify(g) == ("num", val)
                    what = "number"
                else:
                    rec.count("text_cells")
                    if val.strip().lower().lstrip("+-") in ("nan", "inf", "infinity") or re.fullmatch(r"[+-]?\d+e\d{3,}", val.strip(), re.I):
                        rec.count("special_float_cells")
                    if "\r" in val:
                        rec.count("crlf_cells")
                    ok = g == val
                    what = "text"
                if not ok:
                    f2 = dict(fields)
                    f2["cell"] = what
                    if what == "text":
                        f2["why"] = ("cr-normalised" if g == val.replace("\r\n", "\n").replace("\r", "\n") else
                                     "became-number" if classify(g)[0] == "num" and g != val else "other")
                    rec.violation("cell_mismatch", f2, {"r": r, "c": c, "got": g[:120], "want": repr(val)[:120], "flags": flags}, case=case)
                    return
    finally:
        for p_ in (src, dst):
            if os.path.exists(p_):
                os.remove(p_)


def run_grids(spec, rec):
    rng = random.Random(f"C20-{spec['seed']}-{spec['stream']}")
    for i in range(spec["n"]):
        grid, dup = rand_grid(rng)
        flags = {"no_header": rng.random() < .25, "whitespace": rng.random() < .25, "reverse": rng.random() < .25}
        case = {"part": "grid", "grid": grid, "flags": flags, "tag": f"{spec['stream']}", "ctx": {"seed": spec["seed"], "stream": spec["stream"], "i": i}}
        grid_case(case, rec)
        rec.case((tuple(map(tuple, grid)), tuple(sorted(flags.items()))), nontrivial=len(grid) * len(grid[0]) >= 2)
        if i == 0:
            rec.sample({"grid": [r[:4] for r in grid[:3]], "flags": flags, "shape": [len(grid), len(grid[0])]})


def run_subprocess(spec, rec):
    rng = random.Random(f"C20-sub-{spec['seed']}")
    for i in range(spec["n"]):
        R, C = rng.randint(2, 8), rng.randint(2, 5)
        grid = [[f"h{j}" for j in range(C)]] + [[rng.choice(["abc", "1.5", "x,y", "7", 'q"q', "l1\nl2"]) for _ in range(C)] for _ in range(R - 1)]
        flags = {"no_header": False, "whitespace": False, "reverse": rng.random() < .5}
        case = {"part": "grid-subprocess", "grid": grid, "flags": flags, "tag": f"sub{i}"}
        grid_case(case, rec, subprocess_mode=True)
        rec.count("subprocess_cases")
        rec.case(("sub", tuple(map(tuple, grid)), flags["reverse"]))


def run_shard(spec, rec):
    if "cases" in spec:
        for c in spec["cases"]:
            replay(c, rec)
        return
    {"grids": run_grids, "subprocess": run_subprocess}[spec["part"]](spec, rec)


def replay(case, rec):
    if case.get("ctx"):
        # what a conversion does may depend on every conversion the process made before: the whole prefix of the stream is run again
        c = case["ctx"]
        run_grids({"seed": c["seed"], "stream": c["stream"], "n": c["i"] + 1}, rec)
        return
    if case.get("before"):
        from vf.rec import Recorder
        mute = Recorder("C20")
        for b in case["before"]:
            # the conversions made before it in the same process (their outcomes are not judged here)
            try:
                grid_case({"part": "grid", "grid": b["grid"], "flags": b["flags"], "tag": "before", "before": []}, mute)
            except Exception:  # noqa: BLE001
                pass
    grid_case(case, rec, subprocess_mode=case.get("part") == "grid-subprocess")
    rec.case(("replay", str(case)[:80]))
