"""C19 - sheet and table collections: unique names, consistent lookup, stable order.

History workload at the API boundary (event log) in lock-step with a name registry model
(ref: an ordered list of sheet names, each with an ordered list of table names).
After *every* operation: names/order equal the model; every integer index in [-2n-1, 2n+1]
on every collection agrees with list semantics (IndexError outside); every present name
looks up an item with exactly that name; siblings produced by adds are unique ignoring
case; an explicit duplicate raises IndexError and changes nothing; auto names are fresh.
Save + reopen (mid-history and at the end) must show the same names and order.
Inline contract: items_index on ItemsList.__getitem__.
"""
from __future__ import annotations

import itertools
import os
import random

ID = "C19"
LEVEL = "exploration"
SUITE_UNDER_MONITORS = True  # thorough tier: the unedited repository tests run with this property's contracts loaded
SUITE_CONTRACTS = ("items_index",)
CONTRACTS = ("items_index",)
REACH = {"ItemsList.__getitem__": "ItemsList.__getitem__", "ItemsList.__contains__": "ItemsList.__contains__", "Document.add_sheet": "Document.add_sheet",
         "Sheet.add_table": "Sheet.add_table", "Sheet._add_table": "Sheet._add_table"}
ASSUMPTIONS = ["the property speaks of *adding*: a rename onto an existing name is not required to be refused; after such a rename a name lookup must only return an item with exactly that name",
               "non-int/str keys are not exercised", "a lookup of an absent name must not return an item (the exception type is not demanded)"]
NAMES = [None, None, None, "Table 1", "table 1", "TABLE 2", "Table 2", "Table 3", "Sheet 2", "sheet 1", "SHEET 3", "Sheet 1", "X", "x", "", "Ünï", "ünÏ",
         "Table 10", "Sheet 10", "A" * 300, "Table  1", " Table 1", "表", "Table 01", "ǅ", "ß", "SS", "İ",
         # not in normalisation form C (the name given is the name kept and found), and their precomposed twins (different names)
         "Re\u0301sume\u0301", "R\u00e9sum\u00e9", "\u212b", "\u00c5", "Stra\u00dfe", "STRASSE", "\u03c2igma", "\u03c3igma",
         # names that read as numbers (a name is a name: lookup by the string finds that item, not a position)
         "2024", "0", "1", "2", "-1", "007", "+3", "\u0661", "1e3", " 2 ", "0x10", "True", "None",
         # names that read as patterns (a name is matched as a string, not as a glob or a regular expression)
         "Table ?", "Table *", "T*", "*", "?", "Sheet [12]", "Q[1-4]", "Table 1|Table 2", ".*", "Table.1", "^Table 1$", "%s", "{0}"]


def rule(tier):
    return ("histories over {add_sheet(name|None), add_table(sheet, name|None), rename_sheet, rename_table, save+reopen}: all histories of length <= 3 over a 6-operation alphabet "
            "(exhaustive) and random histories of 1-12 operations on documents of 1-6 sheets x 1-6 tables with names from {auto, fresh, exact duplicate, case-variant duplicate, "
            "generated look-alikes ('Table 3'), empty, non-ASCII incl. special-casing letters, 300 chars}; after every operation every collection is probed at every index in "
            "[-2n-1, 2n+1] and every present/absent name. distinct = distinct operation sequences (op kind + name class); non-trivial = length >= 2 or contains a duplicate/auto name")


def floors(tier):
    return {"evaluations": 500 if tier == "quick" else 8000, "distinct": 300 if tier == "quick" else 4000,
            "counters": {"contract:items_index": 50_000, "index_probes": 50_000, "negative_index_probes_outside": 5000, "name_probes": 5000,
                         "explicit_duplicates_tried": 200, "auto_names_generated": 200, "reopened_documents": 250, "case_variant_duplicates_tried": 50}}


ALPHA = [{"op": "add_sheet", "name": None}, {"op": "add_sheet", "name": "Sheet 2"}, {"op": "add_sheet", "name": "sheet 1"},
         {"op": "add_table", "sheet": 0, "name": None}, {"op": "add_table", "sheet": 0, "name": "Table 2"}, {"op": "add_table", "sheet": 0, "name": "TABLE 1"}]


def plan(tier, seed):
    specs = []
    hist = []
    for L in (1, 2, 3):
        for tup in itertools.product(range(len(ALPHA)), repeat=L):
            hist.append(list(tup))
    k = 8
    for i in range(k):
        specs.append({"part": "exhaustive", "histories": hist[i::k], "tier": tier, "seed": seed})
    n = 384 if tier == "quick" else 12000
    kk = 32 if tier == "quick" else 64
    for i in range(kk):
        specs.append({"part": "random", "n": n // kk, "stream": i, "tier": tier, "seed": seed})
    return specs


# --------------------------------------------------------------------------------------
def names_of(doc):
    """Observed registry through iteration order of the public collections (by index 0..n-1)."""
    out = []
    for i in range(len(doc.sheets)):
        s = doc.sheets[i]
        out.append([s.name, [s.tables[j].name for j in range(len(s.tables))]])
    return out


def probe_collection(coll, names, rec, case, label, where):
    """list-semantics index oracle + name lookup on one collection whose expected names are `names`."""
    n = len(names)
    items = [coll[i] for i in range(n)]
    for i in range(-2 * n - 1, 2 * n + 2):
        rec.count("index_probes")
        try:
            got = coll[i]
            outcome = "item"
        except IndexError:
            got = None
            outcome = "IndexError"
        except Exception as e:  # noqa: BLE001
            got = None
            outcome = type(e).__name__
        inside = -n <= i < n
        if not inside and i < 0:
            rec.count("negative_index_probes_outside")
        if inside:
            if outcome != "item":
                rec.violation("index", {"kind": "raised-inside-range", "exc": outcome, "view": label}, {"i": i, "n": n, "where": where}, case=case)
            elif got is not items[i]:
                rec.violation("index", {"kind": "wrong-item", "view": label}, {"i": i, "n": n, "where": where, "got": got.name, "want": items[i].name}, case=case)
        elif outcome != "IndexError":
            rec.violation("index", {"kind": "no-IndexError-outside-range", "side": "negative" if i < 0 else "positive", "got": outcome, "view": label},
                          {"i": i, "n": n, "where": where, "returned": getattr(got, "name", None)}, case=case)
    for nm in list(dict.fromkeys(names)) + ["__absent__", "tAbLe 1" if "Table 1" in names and "tAbLe 1" not in names else "__absent2__"]:
        rec.count("name_probes")
        try:
            it = coll[nm]
        except (KeyError, IndexError, LookupError):
            if nm in names:
                rec.violation("name_lookup", {"kind": "present-name-not-found", "view": label}, {"name": nm, "where": where}, case=case)
            continue
        except Exception as e:  # noqa: BLE001
            rec.violation("name_lookup", {"kind": "raised", "exc": type(e).__name__, "view": label}, {"name": nm, "where": where}, case=case)
            continue
        if it.name != nm:
            rec.violation("name_lookup", {"kind": "wrong-name", "view": label}, {"name": nm, "got": it.name, "where": where}, case=case)


def compare(doc, model, rec, case, label):
    got = names_of(doc)
    if [s[0] for s in got] != [s[0] for s in model]:
        rec.violation("order_or_names", {"what": "sheets", "view": label}, {"got": [s[0] for s in got], "want": [s[0] for s in model]}, case=case)
        return False
    ok = True
    for (sn, gt), (_, wt) in zip(got, model):
        if gt != wt:
            rec.violation("order_or_names", {"what": "tables", "view": label}, {"sheet": sn, "got": gt, "want": wt}, case=case)
            ok = False
    if ok:
        probe_collection(doc.sheets, [s[0] for s in model], rec, case, label, "sheets")
        for i, (sn, tns) in enumerate(model):
            probe_collection(doc.sheets[i].tables, tns, rec, case, label, f"sheets[{i}].tables")
    return ok


def lower_set(names):
    return [n.lower() for n in names]


def name_class(nm, siblings):
    if nm is None:
        return "auto"
    if nm in siblings:
        return "dup-exact"
    if nm.lower() in lower_set(siblings):
        return "dup-case"
    return "fresh"


def run_history(ops, rec, case, init=None, save_points=()):
    """Execute ops (dicts) in lock-step with the registry model.  Returns False on a violation."""
    import warnings
    from numbers_parser import Document
    from vf.events import EventLog
    from vf.gen import docs
    log = EventLog()
    init = init or {}
    with warnings.catch_warnings():
        warnings.simplefilter("ignore")
        doc = Document(**init)
    model = [[init.get("sheet_name", "Sheet 1"), [init.get("table_name", "Table 1")]]]
    nvio0 = len(rec.violations)
    if not compare(doc, model, rec, case, "open"):
        return False
    classes = []
    for step, op in enumerate(ops):
        before = names_of(doc)
        k = op["op"]
        if k == "add_sheet":
            nm = op["name"]
            sib = [s[0] for s in model]
            cls = name_class(nm, sib)
            classes.append(("add_sheet", cls))
            kw = {} if nm is None else {"sheet_name": nm}
            if "table_name" in op:
                kw["table_name"] = op["table_name"]
            r, _ = log.call(op, lambda: doc.add_sheet(**kw))
            if cls.startswith("dup"):
                rec.count("explicit_duplicates_tried")
                if cls == "dup-case":
                    rec.count("case_variant_duplicates_tried")
                if r["outcome"] != "exc" or r["exc_type"] != "IndexError":
                    rec.violation("duplicate_not_refused", {"what": "sheet", "dup": cls, "outcome": r.get("exc_type", "accepted")}, {"name": nm, "siblings": sib, "log": log.export(4)}, case=case)
                elif names_of(doc) != before:
                    rec.violation("refused_add_changed_document", {"what": "sheet"}, {"before": before, "after": names_of(doc)}, case=case)
                if r["outcome"] == "ret":
                    model.append([doc.sheets[len(model)].name, [op.get("table_name", "Table 1")]])
            else:
                if r["outcome"] == "exc":
                    rec.violation("fresh_add_refused", {"what": "sheet", "cls": cls, "exc": r["exc_type"]}, {"name": nm, "siblings": sib, "msg": r["exc_msg"]}, case=case)
                    return False
                new = doc.sheets[len(model)].name if len(doc.sheets) > len(model) else None
                if new is None:
                    rec.violation("add_did_not_append", {"what": "sheet"}, {"name": nm}, case=case)
                    return False
                if nm is None:
                    rec.count("auto_names_generated")
                    if new.lower() in lower_set(sib):
                        rec.violation("auto_name_collides", {"what": "sheet"}, {"chosen": new, "siblings": sib}, case=case)
                elif new != nm:
                    rec.violation("name_not_as_given", {"what": "sheet"}, {"given": nm, "got": new}, case=case)
                model.append([new, [op.get("table_name", "Table 1")]])
        elif k == "add_table":
            si = op["sheet"] % len(model)
            nm = op["name"]
            sib = model[si][1]
            cls = name_class(nm, sib)
            classes.append(("add_table", cls))
            kw = {} if nm is None else {"table_name": nm}
            # where the table is placed and how big it is has nothing to do with the order of the collection
            for a in ("x", "y", "num_rows", "num_cols"):
                if a in op:
                    kw[a] = op[a]
            r, t = log.call(op, lambda: doc.sheets[si].add_table(**kw))
            if cls.startswith("dup"):
                rec.count("explicit_duplicates_tried")
                if cls == "dup-case":
                    rec.count("case_variant_duplicates_tried")
                if r["outcome"] != "exc" or r["exc_type"] != "IndexError":
                    rec.violation("duplicate_not_refused", {"what": "table", "dup": cls, "outcome": r.get("exc_type", "accepted")}, {"name": nm, "siblings": sib, "log": log.export(4)}, case=case)
                elif names_of(doc) != before:
                    rec.violation("refused_add_changed_document", {"what": "table"}, {"before": before, "after": names_of(doc)}, case=case)
                if r["outcome"] == "ret":
                    model[si][1].append(t.name)
            else:
                if r["outcome"] == "exc":
                    rec.violation("fresh_add_refused", {"what": "table", "cls": cls, "exc": r["exc_type"]}, {"name": nm, "siblings": sib, "msg": r["exc_msg"]}, case=case)
                    return False
                new = t.name
                if nm is None:
                    rec.count("auto_names_generated")
                    if new.lower() in lower_set(sib):
                        rec.violation("auto_name_collides", {"what": "table"}, {"chosen": new, "siblings": sib}, case=case)
                elif new != nm:
                    rec.violation("name_not_as_given", {"what": "table"}, {"given": nm, "got": new}, case=case)
                if doc.sheets[si].tables[len(sib)] is not t:
                    rec.violation("add_did_not_append", {"what": "table"}, {"name": nm}, case=case)
                model[si][1].append(new)
        elif k == "rename_sheet":
            si = op["sheet"] % len(model)
            classes.append(("rename_sheet", name_class(op["name"], [s[0] for j, s in enumerate(model) if j != si])))
            r, _ = log.call(op, lambda: setattr(doc.sheets[si], "name", op["name"]))
            if r["outcome"] == "ret":
                model[si][0] = op["name"]
        elif k == "rename_table":
            si = op["sheet"] % len(model)
            ti = op["table"] % len(model[si][1])
            classes.append(("rename_table", name_class(op["name"], [t for j, t in enumerate(model[si][1]) if j != ti])))
            r, _ = log.call(op, lambda: setattr(doc.sheets[si].tables[ti], "name", op["name"]))
            if r["outcome"] == "ret":
                model[si][1][ti] = op["name"]
        # sibling uniqueness (ignoring case) among what adds produced: checked on the model
        # minus names introduced by renames - simpler and sound: only flag when the *last op was an add*
        if k in ("add_sheet", "add_table") and log.records[-1]["outcome"] == "ret":
            sibs = [s[0] for s in model] if k == "add_sheet" else model[op["sheet"] % len(model)][1]
            new = sibs[-1]
            if sibs[:-1] and new.lower() in lower_set(sibs[:-1]):
                rec.violation("siblings_equal_ignoring_case", {"what": k[4:]}, {"siblings": sibs}, case=case)
        if not compare(doc, model, rec, case, "open"):
            return False
        if step in save_points or step == len(ops) - 1:
            path = os.path.join(docs.scratch_dir(), "c19.numbers")
            try:
                docs.save(doc, path)
                with warnings.catch_warnings():
                    warnings.simplefilter("ignore")
                    doc2 = Document(path)
            except Exception as e:  # noqa: BLE001
                rec.violation("save_or_reopen_raised", {"exc": type(e).__name__}, {"msg": str(e)[:200], "model": model}, case=case)
                return False
            finally:
                if os.path.exists(path):
                    os.remove(path)
            rec.count("reopened_documents")
            if not compare(doc2, model, rec, case, "reloaded"):
                return False
            if names_of(doc) != [[s[0], list(s[1])] for s in model]:
                rec.violation("save_changed_open_document", {}, {"got": names_of(doc), "want": model}, case=case)
    key = tuple(classes)
    rec.case(key, nontrivial=len(ops) >= 2 or any(c[1] != "fresh" for c in classes))
    return len(rec.violations) == nvio0


def run_exhaustive(spec, rec):
    for h in spec["histories"]:
        ops = [dict(ALPHA[i]) for i in h]
        case = {"part": "history", "init": {}, "ops": ops, "save_points": []}
        run_history(ops, rec, case)
    rec.sample({"history": [ALPHA[i] for i in spec["histories"][-1]]} if spec["histories"] else {})


def rand_history(rng):
    init = {}
    if rng.random() < .3:
        init["sheet_name"] = rng.choice(["Sheet 1", "S", "sheet 2", "Ünï"])
    if rng.random() < .3:
        init["table_name"] = rng.choice(["Table 1", "T", "table 2", "TABLE 3"])
    ops = []
    # initial population: up to 6 sheets x up to 6 tables
    # (saving costs O(tables x objects) in this library: big populations are drawn rarely)
    c = rng.random()
    if c < .04:
        for _ in range(rng.randint(3, 5)):
            ops.append({"op": "add_sheet", "name": None})
        for s in range(6):
            for _ in range(rng.randint(0, 5)):
                ops.append({"op": "add_table", "sheet": s, "name": None})
    elif c < .4:
        for _ in range(rng.randint(0, 2)):
            ops.append({"op": "add_sheet", "name": None})
        for s in range(3):
            for _ in range(rng.randint(0, 2)):
                ops.append({"op": "add_table", "sheet": s, "name": None})
    for _ in range(rng.randint(1, 12)):
        c = rng.random()
        if c < .3:
            op = {"op": "add_sheet", "name": rng.choice(NAMES)}
            if rng.random() < .3:
                op["table_name"] = rng.choice(["Table 1", "First", "table 2"])
            ops.append(op)
        elif c < .7:
            op = {"op": "add_table", "sheet": rng.randrange(6), "name": rng.choice(NAMES)}
            k2 = rng.random()
            if k2 < .25:
                op["x"], op["y"] = float(rng.choice([0, 300, 600, 900])), float(rng.choice([0, 0, 40, 500, 2000]))
            elif k2 < .35:
                op["x"] = float(rng.choice([0, 600]))
            if rng.random() < .3:
                op["num_rows"], op["num_cols"] = rng.choice([1, 3, 30]), rng.choice([1, 2, 6])
            ops.append(op)
        elif c < .85:
            ops.append({"op": "rename_table", "sheet": rng.randrange(6), "table": rng.randrange(6), "name": rng.choice([n for n in NAMES if n is not None] + ["Renamed", "R2"])})
        else:
            ops.append({"op": "rename_sheet", "sheet": rng.randrange(6), "name": rng.choice([n for n in NAMES if n is not None] + ["Renamed", "R2"])})
    if rng.random() < .35:
        # an automatic name must be unique among the names the siblings have *now*: a sibling (or another sheet) is renamed
        # onto a name of the automatic series between two unnamed additions
        s_ = rng.randrange(3)
        for _ in range(rng.randint(1, 3)):
            ops.append({"op": rng.choice(["add_table", "add_table", "add_sheet"]), "sheet": s_, "name": None})
            k_ = rng.randint(1, 6)
            if ops[-1]["op"] == "add_table":
                ops.append({"op": "rename_table", "sheet": s_, "table": rng.randrange(4), "name": rng.choice([f"Table {k_}", f"table {k_}", f"TABLE {k_}"])})
            else:
                ops.append({"op": "rename_sheet", "sheet": rng.randrange(4), "name": rng.choice([f"Sheet {k_}", f"sheet {k_}", f"SHEET {k_}"])})
            ops.append({"op": ops[-2]["op"], "sheet": s_, "name": None})
    sp = sorted({rng.randrange(len(ops)) for _ in range(rng.choice([0, 0, 1]))})
    return init, ops, sp


def run_random(spec, rec):
    rng = random.Random(f"C19-{spec['seed']}-{spec['stream']}")
    for i in range(spec["n"]):
        init, ops, sp = rand_history(rng)
        case = {"part": "history", "init": init, "ops": ops, "save_points": sp}
        run_history(ops, rec, case, init=init, save_points=sp)
        if i == 0:
            rec.sample({"history": ops[:8], "init": init})


def run_shard(spec, rec):
    if "cases" in spec:
        for c in spec["cases"]:
            replay(c, rec)
        return
    {"exhaustive": run_exhaustive, "random": run_random}[spec["part"]](spec, rec)


def replay(case, rec):
    run_history(case["ops"], rec, case, init=case.get("init") or {}, save_points=case.get("save_points", ()))
