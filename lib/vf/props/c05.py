"""C05 - IWA archive decoding and encoding are mutually inverse and chunking-independent.

Oracle: ref/iwa.py (independent container codec keeping message payloads as bytes).
 roundtrip : plain(IWAFile.from_buffer(b).to_buffer()) == plain(b), segment by segment
             (identical header bytes, identical message bytes, incl. unknown fields)
 decode    : the library's archives == the reference's (header, [message bytes]) sequence
 rechunk   : the decoded archives do not depend on chunk boundaries / stored vs compressed
 rules     : every to_buffer output obeys the container rules and is_iwa_file accepts it
Workloads: all .iwa members of fixtures + template; members of API-generated documents;
synthetic archives at size boundaries; systematic + random re-chunkings.
"""
from __future__ import annotations

import io
import os
import random
import warnings
import shutil
import zipfile

ID = "C05"
LEVEL = "exploration"
SUITE_UNDER_MONITORS = True  # thorough tier: the unedited repository tests run with this property's contracts loaded
SUITE_CONTRACTS = ("iwa",)
CONTRACTS = ("iwa",)
PY_FLAGS = ["-X", "faulthandler"]
REACH = {"IWAFile.from_buffer": "IWAFile.from_buffer", "IWAFile.to_buffer": "IWAFile.to_buffer",
         "IWACompressedChunk._decompress_all": "_decompress_all", "IWAArchiveSegment.to_buffer": "IWAArchiveSegment.to_buffer",
         "is_iwa_file": "is_iwa_file"}
ASSUMPTIONS = ["ref/iwa.py is my reading of the container format (00|len24|payload chunks; varint+ArchiveInfo+messages), validated on every fixture archive",
               "compressed bytes are not compared (snappy output is not canonical); a stored chunk that happens to be valid raw snappy is ambiguous by construction and is emitted compressed by the reference",
               "byte identity of messages is demanded only where the original bytes are what protobuf itself emits (checked per archive; non-canonical originals are counted as not comparable)",
               "trusted base: cramjam, protobuf, the generated schema classes"]


def rule(tier):
    return ("one case per (archive stream, chunking): every .iwa member of every fixture and the template (exhaustive over the corpus), members of API-generated "
            "documents, synthetic archives of total size {0,1,50,65535,65536,65537,131071,131072,131073,200000,1MiB,2MiB} x {1,3,40,400} segments x multi-message x unknown fields, "
            "each under systematic (every cut position for small streams, +-1 around segment boundaries, inside varints) and random cut sets with compressed/stored chunks; "
            "distinct = distinct (plaintext hash, cut set, stored pattern); non-trivial = non-empty plaintext")


def floors(tier):
    return {"evaluations": 6000, "distinct": 5000,
            "counters": {"corpus_archives": 5000, "roundtrip_identical": 5000, "rechunk_cases": 1500 if tier == "quick" else 15000,
                         "multi_chunk_streams": 50, "stored_chunks_decoded": 200, "synthetic_archives": 60, "synthetic_with_patch_messages": 40, "rechunk_cases_with_empty_chunks": 3000, "streams_through_reader_and_writer": 120, "synthetic_headers_at_varint_boundaries": 10, "synthetic_incompressible_64k": 20, "payload_over_65535": 5, "synthetic_exact_64k_multiple": 6, "generated_doc_archives": 300,
                         "contract:iwa_encode": 5000, "contract:iwa_decode": 5000}}


def plan(tier, seed):
    from vf import corpus
    paths = corpus.fixture_paths() + [corpus.template_path()]
    specs = []
    n = 10
    for i in range(n):
        specs.append({"part": "corpus", "paths": paths[i::n], "tier": tier, "seed": seed, "rechunk": 2 if tier == "quick" else 20})
    ndocs = 60 if tier == "quick" else 600
    k = 6 if tier == "quick" else 16
    for i in range(k):
        specs.append({"part": "generated", "n": ndocs // k, "stream": i, "tier": tier, "seed": seed})
    for i in range(4 if tier == "quick" else 12):
        specs.append({"part": "synthetic", "stream": i, "tier": tier, "seed": seed, "rechunk": 20 if tier == "quick" else 200})
    for i in range(4 if tier == "quick" else 16):
        specs.append({"part": "through-iwork", "stream": i, "n": 40 if tier == "quick" else 600, "tier": tier, "seed": seed})
    return specs


# ---------------------------------------------------------------------------------------
def members(path):
    """Yield (member name, bytes) for every file of a .numbers zip or package folder,
    descending into Index.zip."""
    def from_zip(zf, prefix=""):
        for name in zf.namelist():
            if name.endswith("/"):
                continue
            b = zf.read(name)
            if name.lower().endswith("index.zip"):
                yield from from_zip(zipfile.ZipFile(io.BytesIO(b)), prefix + name + "!")
            else:
                yield prefix + name, b
    if os.path.isdir(path):
        for root, _, files in os.walk(path):
            for fn in files:
                full = os.path.join(root, fn)
                rel = os.path.relpath(full, path)
                with open(full, "rb") as f:
                    b = f.read()
                if fn.lower() == "index.zip":
                    yield from from_zip(zipfile.ZipFile(io.BytesIO(b)), rel + "!")
                else:
                    yield rel, b
    else:
        yield from from_zip(zipfile.ZipFile(path))


def lib_segments(f):
    out = []
    for ch in f.chunks:
        for a in ch.archives:
            out.append((a.header.SerializeToString(), [o.SerializeToString() for o in a.objects]))
    return out


def check_stream(b, rec, origin, case, rechunk=0, rng=None):
    """All C05 oracles on one archive stream b (bytes of an .iwa file)."""
    from numbers_parser.iwafile import IWAFile, is_iwa_file
    from vf.ref import iwa
    import hashlib
    try:
        chunks = iwa.chunks(b)
        p = b"".join(c[1] for c in chunks)
        segs = iwa.segments(p)
    except Exception as e:  # noqa: BLE001 - not well-formed by the reference reading: outside the property
        if origin.startswith("generated"):
            # a file the library itself has just written: "every encoded file obeys the container rules"
            rec.violation("encoded_not_wellformed", {"exc": type(e).__name__, "stage": case.get("stage", "first-save")}, {"origin": origin, "msg": str(e)[:200]}, case=case)
            return
        rec.count("not_wellformed_by_reference")
        rec.note(f"{origin}: reference cannot decode ({type(e).__name__}: {e})")
        return
    ph = hashlib.blake2b(p, digest_size=8).hexdigest()
    rec.case((ph, "orig"), nontrivial=len(p) > 0)
    if len(chunks) > 1:
        rec.count("multi_chunk_streams")
    ref_segs = [(hdr, list(msgs)) for hdr, ai, msgs in segs]
    try:
        f = IWAFile.from_buffer(b)
    except Exception as e:  # noqa: BLE001
        rec.violation("decode_raised", {"exc": type(e).__name__, "origin": origin.split(":")[0]}, {"origin": origin, "msg": str(e)[:200]}, case=case)
        return
    ls = lib_segments(f)
    canonical = True
    if len(ls) != len(ref_segs):
        rec.violation("decode_segments", {"kind": "count"}, {"origin": origin, "lib": len(ls), "ref": len(ref_segs)}, case=case)
        return
    for i, ((lh, lm), (rh, rm)) in enumerate(zip(ls, ref_segs)):
        if lh != rh or lm != rm:
            # is the original itself canonical protobuf?  (re-serialising the *reference's* parse must reproduce it)
            from numbers_parser.generated.TSPArchiveMessages_pb2 import ArchiveInfo
            if ArchiveInfo.FromString(rh).SerializeToString() != rh:
                canonical = False
                continue
            if lh != rh:
                rec.violation("decode_header_bytes", {"kind": "header"}, {"origin": origin, "segment": i}, case=case)
            else:
                which = [j for j, (a, c) in enumerate(zip(lm, rm)) if a != c]
                rec.violation("decode_message_bytes", {"kind": "message"}, {"origin": origin, "segment": i, "messages": which[:5],
                                                                           "lib_len": [len(lm[j]) for j in which[:5]], "ref_len": [len(rm[j]) for j in which[:5]]}, case=case)
            return
    if not canonical:
        rec.count("not_comparable_noncanonical_original")
    # encode
    try:
        out = f.to_buffer()
    except Exception as e:  # noqa: BLE001
        rec.violation("encode_raised", {"exc": type(e).__name__}, {"origin": origin, "msg": str(e)[:200]}, case=case)
        return
    bad = iwa.container_rule_violations(out)
    for msg in bad[:3]:
        rec.violation("container_rule", {"rule": msg.split(": ", 1)[-1][:40].rstrip("0123456789 ")}, {"origin": origin, "msg": msg, "plain_len": len(p)}, case=case)
    if not is_iwa_file(out):
        rec.violation("container_rule", {"rule": "is_iwa_file rejects own output"}, {"origin": origin}, case=case)
    rec.count("is_iwa_file_accepts", 1)
    rec.count("payload_over_65535", sum(1 for c in (iwa.chunks(out) if not bad else []) if len(c[0]) > 65535))
    if not bad:
        p2 = iwa.plain(out)
        if canonical and p2 != p:
            # locate first differing segment
            try:
                s2 = iwa.segments(p2)
                where = next((i for i, (x, y) in enumerate(zip(s2, segs)) if x[0] != y[0] or x[2] != y[2]), min(len(s2), len(segs)))
            except Exception as e:  # noqa: BLE001
                where = f"re-encoded stream undecodable: {e}"
            rec.violation("roundtrip_plaintext", {"kind": "differs"}, {"origin": origin, "len_in": len(p), "len_out": len(p2), "first_segment": where}, case=case)
        elif canonical:
            rec.count("roundtrip_identical")
    # re-chunking
    if rechunk and len(p) > 1 and rng is not None:
        cutsets = []
        # systematic
        if len(p) <= 64:
            cutsets += [[c] for c in range(1, len(p))]
        bounds = []
        pos = 0
        for hdr, ai, msgs in segs:
            pos += len(iwa.enc_varint(len(hdr)))
            bounds.append(pos - 1)  # inside / right after the varint
            pos += len(hdr)
            bounds.append(pos)
            for m in msgs:
                pos += len(m)
            bounds.append(pos)
        near = sorted({c + d for c in bounds[:40] for d in (-1, 0, 1) if 0 < c + d < len(p)})
        if near:
            cutsets.append(near[:60])
            cutsets += [[c] for c in rng.sample(near, min(len(near), 6))]
        for _ in range(rechunk):
            k = rng.randint(1, 8)
            cutsets.append(sorted({rng.randrange(1, len(p)) for _ in range(k)}))
        for cuts in cutsets:
            # no piece may exceed what fits the reader (64 KiB is the writer's rule, not the reader's) - keep pieces < 16 MiB
            stored_mask = rng.getrandbits(len(cuts) + 1) if rng.random() < .6 else 0
            try:
                b2, amb = iwa.frame(p, cuts, stored=lambda i, m=stored_mask: bool(m >> i & 1))
            except AssertionError:
                continue
            empties = []
            if rng.random() < .3:
                # chunks whose plaintext is empty (two cut points that coincide), in front, in the middle or at the end
                nch = len(iwa.chunks(b2))
                empties = [[rng.randrange(nch + 1), rng.choice(["stored", "compressed"])] for _ in range(rng.randint(1, 3))]
                b2 = iwa.insert_empty_chunks(b2, empties)
                rec.count("rechunk_cases_with_empty_chunks")
            rec.count("ambiguous_stored_chunks_avoided", amb)
            rec.count("rechunk_cases")
            rec.count("stored_chunks_decoded", sum(1 for c in iwa.chunks(b2) if not c[2]))
            rec.case((ph, tuple(cuts), stored_mask), nontrivial=True)
            c2 = dict(case)
            c2["cuts"] = cuts
            c2["stored_mask"] = stored_mask
            c2["empties"] = empties
            try:
                f2 = IWAFile.from_buffer(b2)
                ls2 = lib_segments(f2)
            except Exception as e:  # noqa: BLE001
                rec.violation("rechunk_decode_raised", {"exc": type(e).__name__}, {"origin": origin, "cuts": cuts[:10], "stored_mask": stored_mask, "msg": str(e)[:200]}, case=c2)
                continue
            if ls2 != ls:
                rec.violation("rechunk_changes_content", {"kind": "segments"}, {"origin": origin, "cuts": cuts[:10], "stored_mask": stored_mask,
                                                                              "n_before": len(ls), "n_after": len(ls2)}, case=c2)


def run_corpus(spec, rec):
    rng = random.Random(f"C05-corpus-{spec['seed']}-{spec['paths'][0] if spec['paths'] else ''}")
    n = 0
    for path in spec["paths"]:
        try:
            ms = list(members(path))
        except Exception as e:  # noqa: BLE001 - fixtures that are not zips at all (C17's corpus)
            rec.note(f"{os.path.basename(path)}: not a readable container ({type(e).__name__})")
            continue
        for name, b in ms:
            if not name.endswith(".iwa"):
                continue
            n += 1
            rec.count("corpus_archives")
            # every archive gets the round trip; a deterministic sample also gets re-chunked
            rc = spec["rechunk"] if (n % 7 == 0 or len(b) > 70000) else 0
            check_stream(b, rec, f"fixture:{os.path.basename(path)}!{name}", {"part": "member", "path": path, "member": name}, rechunk=rc, rng=rng)
    rec.sample({"corpus_paths": [os.path.basename(p) for p in spec["paths"][:4]], "archives": n})


def run_generated(spec, rec):
    from vf.gen import docs
    rng = random.Random(f"C05-gen-{spec['seed']}-{spec['stream']}")
    d = docs.scratch_dir()
    for i in range(spec["n"]):
        rseed = rng.randrange(1 << 40)
        r2 = random.Random(rseed)
        size = r2.choice(["small", "small", "small", "tiles", "wide"])
        recipe = docs.rand_recipe(r2, size=size)
        path = os.path.join(d, f"g{i}.numbers")
        try:
            doc, _ = docs.build(recipe)
            docs.save(doc, path)
        except Exception as e:  # noqa: BLE001
            rec.build_failure(f"generated document: {type(e).__name__}")
            continue
        for name, b in members(path):
            if name.endswith(".iwa"):
                rec.count("generated_doc_archives")
                check_stream(b, rec, f"generated:{rseed}!{name}", {"part": "generated", "rseed": rseed, "size": size, "member": name},
                             rechunk=1 if r2.random() < .1 else 0, rng=r2)
        os.remove(path)
        # the same open document edited (objects grow and shrink) and encoded again: the archives of the second file obey the same rules
        try:
            second_edit(doc, rseed)
            docs.save(doc, path)
        except Exception as e:  # noqa: BLE001
            rec.violation("second_save_raised", {"exc": type(e).__name__}, {"msg": str(e)[:200], "rseed": rseed}, case={"part": "generated", "rseed": rseed, "size": size, "stage": "second-save", "member": ""})
            continue
        for name, b in members(path):
            if name.endswith(".iwa"):
                rec.count("generated_doc_archives_second_save")
                check_stream(b, rec, f"generated:{rseed}!{name}", {"part": "generated", "rseed": rseed, "size": size, "member": name, "stage": "second-save"}, rechunk=0, rng=r2)
        os.remove(path)
        if i == 0:
            rec.sample({"generated_recipe_seed": rseed, "size": size, "ops": len(recipe["ops"])})


def second_edit(doc, rseed):
    """Edits between two saves of one Document: strings that lengthen and shorten string lists and tiles, a new row, a rename."""
    r3 = random.Random(rseed ^ 0x5EC0)
    with warnings.catch_warnings():
        warnings.simplefilter("ignore")
        for sh in doc.sheets:
            for t in sh.tables:
                for _ in range(r3.randint(1, 6)):
                    r, c = r3.randrange(t.num_rows), r3.randrange(t.num_cols)
                    try:
                        t.write(r, c, r3.choice(["x" * r3.randint(1, 400), "", 3.25, True, "second " + str(r3.random())]))
                    except Exception:  # noqa: BLE001 - merged cells etc.: not what is judged here
                        pass
                if r3.random() < .3:
                    t.add_row()


def synth(total, nseg, rng, multi=False, unknown=False, entropy=False, header_only_ok=True):
    """A synthetic plaintext of about `total` bytes in nseg segments (TableDataList string lists)."""
    from numbers_parser.generated import TSTArchives_pb2 as TST
    from numbers_parser.generated.mapping import NAME_ID_MAP
    from numbers_parser.generated.TSPArchiveMessages_pb2 import ArchiveInfo
    from vf.ref import iwa
    if total == 0:
        return b""
    segs = []
    header_only = [0]
    per = max(1, total // nseg)
    for i in range(nseg):
        msgs = []
        for j in range(2 if multi and i % 2 == 0 else 1):
            dl = TST.TableDataList(listType=TST.TableDataList.ListType.STRING, nextListID=1)
            remaining = per // (2 if multi and i % 2 == 0 else 1)
            k = 1
            while remaining > 0:
                n = min(remaining, rng.choice([1, 10, 100, 5000, 70000]))
                if entropy:
                    import base64
                    text = base64.b64encode(rng.randbytes(n * 3 // 4 + 1)).decode()[:n]
                else:
                    text = "".join(rng.choice("abcdefgh ") for _ in range(min(n, 64))) * max(1, n // 64)
                dl.entries.add(key=k, refcount=1, string=text)
                remaining -= n + 8
                k += 1
            m = dl.SerializeToString()
            if unknown:
                # unknown fields: field 1999 varint 7, field 2000 length-delimited b"vf" (appended: where protobuf re-emits them)
                m += iwa.enc_varint(1999 << 3 | 0) + b"\x07" + iwa.enc_varint(2000 << 3 | 2) + b"\x02vf"
            msgs.append(m)
        ai = ArchiveInfo(identifier=1000 + i)
        if nseg >= 3 and i % 5 == 2 and not multi and header_only_ok:
            # a segment whose header names an object but carries no message at all
            msgs = []
            header_only[0] += 1
        for m in msgs:
            mi = ai.message_infos.add()
            mi.type = NAME_ID_MAP["TST.TableDataList"]
            mi.version.extend([1, 0, 5])
            mi.length = len(m)
            if unknown and i % 3 == 1:
                # a field the schema does not know inside a MessageInfo
                mi.MergeFromString(iwa.enc_varint(1998 << 3 | 0) + b"\x05")
        if unknown and i % 2 == 0:
            # ... and in the segment header (ArchiveInfo) itself: a varint and a length-delimited field
            ai.MergeFromString(iwa.enc_varint(1999 << 3 | 0) + b"\x07" + iwa.enc_varint(2000 << 3 | 2) + b"\x02hd")
        segs.append((ai, msgs))
    return iwa.build(segs)


def synth_exact(total, rng, nseg=1, tail_zero=False):
    """A plaintext of *exactly* `total` bytes (the 64 KiB rule bites at exact multiples).  tail_zero: the last byte is 00 (an
    empty string field), so that a last block of one byte is 00 - which, taken for a compressed chunk, is valid raw snappy for
    'nothing'."""
    from numbers_parser.generated import TSTArchives_pb2 as TST
    from numbers_parser.generated.mapping import NAME_ID_MAP
    from numbers_parser.generated.TSPArchiveMessages_pb2 import ArchiveInfo
    from vf.ref import iwa

    def build(n_last, extra):
        segs = []
        for i in range(nseg):
            dl = TST.TableDataList(listType=TST.TableDataList.ListType.STRING, nextListID=1)
            if i < nseg - 1:
                dl.entries.add(key=1, refcount=1, string="seg%d" % i * 3)
            else:
                dl.entries.add(key=1, refcount=1, string="x" * n_last)
                for j in range(extra):
                    dl.entries.add(key=2 + j, refcount=1, string="")
            m = dl.SerializeToString()
            ai = ArchiveInfo(identifier=2000 + i)
            mi = ai.message_infos.add()
            mi.type = NAME_ID_MAP["TST.TableDataList"]
            mi.version.extend([1, 0, 5])
            mi.length = len(m)
            segs.append((ai, [m]))
        return iwa.build(segs)
    for extra in range(1 if tail_zero else 0, 7):
        n = max(0, total - 64)
        for _ in range(40):
            p = build(n, extra)
            d = total - len(p)
            if d == 0:
                return p
            n = max(0, n + d)
    return None


def synth_header(target):
    """One segment whose header (ArchiveInfo) is about `target` bytes long: object references are added until it is."""
    from numbers_parser.generated import TSTArchives_pb2 as TST
    from numbers_parser.generated.mapping import NAME_ID_MAP
    from numbers_parser.generated.TSPArchiveMessages_pb2 import ArchiveInfo
    from vf.ref import iwa
    m = TST.TableDataList(listType=TST.TableDataList.ListType.STRING, nextListID=1).SerializeToString()
    ai = ArchiveInfo(identifier=4000)
    mi = ai.message_infos.add()
    mi.type = NAME_ID_MAP["TST.TableDataList"]
    mi.version.extend([1, 0, 5])
    mi.length = len(m)
    while ai.ByteSize() < target - 3 and len(mi.object_references) < 80000:
        mi.object_references.append(100 + len(mi.object_references) % 20)  # one byte each
    for extra in (200, 20000, 3000000):  # 2-, 3- and 4-byte values to close in on the size
        while ai.ByteSize() < target:
            mi.object_references.append(extra)
            if ai.ByteSize() > target:
                del mi.object_references[-1]
                break
    return iwa.build([(ai, [m])]), ai.ByteSize()


def synth_merge(rng, nseg):
    """Merged segments (ArchiveInfo.should_merge): full messages of different types followed by untyped patch messages, each
    naming its base by MessageInfo.base_message_index - adjacent or not, in any order.  Decoding and encoding reproduces every
    patch byte for byte only if the patch is read with the class of the message it names."""
    from numbers_parser.generated import TSAArchives_pb2 as TSA, TSKArchives_pb2 as TSK, TSTArchives_pb2 as TST
    from numbers_parser.generated.mapping import NAME_ID_MAP
    from numbers_parser.generated.TSPArchiveMessages_pb2 import ArchiveInfo
    from vf.ref import iwa
    makers = [
        ("TSA.FunctionBrowserStateArchive", lambda: TSA.FunctionBrowserStateArchive(recent_functions=[rng.randrange(300) for _ in range(rng.randint(1, 4))], current_function=rng.randrange(300)),
         lambda: TSA.FunctionBrowserStateArchive(recent_functions=[rng.randrange(300)], current_function=rng.randrange(300))),
        ("TSK.AnnotationAuthorArchive", lambda: TSK.AnnotationAuthorArchive(name="A. N. Other %d" % rng.randrange(100), public_id="id-%d" % rng.randrange(100), is_public_author=False),
         lambda: TSK.AnnotationAuthorArchive(is_public_author=True)),
        ("TST.TableDataList", lambda: TST.TableDataList(listType=TST.TableDataList.ListType.STRING, nextListID=rng.randrange(1, 50)),
         lambda: TST.TableDataList(listType=TST.TableDataList.ListType.STRING, nextListID=rng.randrange(50, 99))),
    ]
    segs = []
    for i in range(nseg):
        k = rng.randint(1, 3)
        full = [rng.choice(makers) for _ in range(k)]
        order = list(range(k)) * rng.randint(1, 2)
        rng.shuffle(order)
        ai = ArchiveInfo(identifier=3000 + i, should_merge=True)
        msgs = []
        for name, mk, _ in full:
            m = mk().SerializeToString()
            mi = ai.message_infos.add()
            mi.type = NAME_ID_MAP[name]
            mi.version.extend([1, 0, 5])
            mi.length = len(m)
            msgs.append(m)
        for base in order:
            m = full[base][2]().SerializeToString()
            mi = ai.message_infos.add()
            mi.type = 0
            mi.version.extend([1, 0, 5])
            mi.length = len(m)
            mi.base_message_index = base
            # what a patch may say about itself: the path of the field it replaces (none, one or several steps), fields to remove, versions
            k2 = rng.random()
            if k2 < .6:
                mi.diff_field_path.path.extend([rng.randrange(1, 12) for _ in range(rng.choice([1, 1, 2, 2, 3]))])
            if rng.random() < .3:
                fp = mi.fields_to_remove.add()
                fp.path.extend([rng.randrange(1, 12) for _ in range(rng.randint(1, 2))])
            if rng.random() < .3:
                mi.diff_merge_version.extend([1, 0, 5])
            if rng.random() < .2:
                mi.diff_read_version.extend([2, 0, 0])
            msgs.append(m)
        segs.append((ai, msgs))
    return iwa.build(segs)


def synth_repeated_ids(rng, nseg):
    """Segments of one file that share identifiers (an object followed later by another segment - merged or not - for the same
    object): every segment is a segment of the stream, whatever its identifier."""
    from numbers_parser.generated import TSTArchives_pb2 as TST
    from numbers_parser.generated.mapping import NAME_ID_MAP
    from numbers_parser.generated.TSPArchiveMessages_pb2 import ArchiveInfo
    from vf.ref import iwa
    segs = []
    ids = [5000 + i for i in range(max(1, nseg // 2))]
    for i in range(nseg):
        ident = rng.choice(ids) if i else ids[0]
        m = TST.TableDataList(listType=TST.TableDataList.ListType.STRING, nextListID=i + 1).SerializeToString()
        ai = ArchiveInfo(identifier=ident)
        if i and rng.random() < .5:
            ai.should_merge = True
        mi = ai.message_infos.add()
        mi.type = NAME_ID_MAP["TST.TableDataList"]
        mi.version.extend([1, 0, 5])
        mi.length = len(m)
        segs.append((ai, [m]))
    return iwa.build(segs)


def through_iwork(stream_bytes, package, scratch):
    """Pack one archive stream as Index/Tables/DataList.iwa of a minimal container, open it with the library's IWork reader and
    write it back (single file or package folder); -> the bytes of that member as written."""
    import plistlib
    import zipfile
    from pathlib import Path
    from numbers_parser.iwork import IWork, IWorkHandler

    class Store(IWorkHandler):
        def __init__(self):
            self.files = {}

        def store_file(self, filename, blob):
            self.files[filename] = blob

        def store_object(self, filename, identifier, archive):
            pass

        def allowed_format(self, extension):
            return extension == ".numbers"

        def allowed_version(self, version):
            return True
    src = Path(scratch) / "c05-iwork-src.numbers"
    dst = Path(scratch) / "c05-iwork-dst.numbers"
    for p_ in (src, dst):
        if p_.is_dir():
            shutil.rmtree(p_)
        elif p_.exists():
            p_.unlink()
    with zipfile.ZipFile(src, "w") as z:
        z.writestr("Index/Tables/DataList.iwa", stream_bytes)
        z.writestr("Metadata/Properties.plist", plistlib.dumps({"fileFormatVersion": "14.1"}))
        z.writestr("Metadata/BuildVersionHistory.plist", plistlib.dumps(["M14.1-7040.0.73-2"]))
    h = Store()
    iw = IWork(handler=h)
    iw.open(src)
    iw.save(dst, h.files, package=package)
    try:
        if package:
            with zipfile.ZipFile(dst / "Index.zip") as z:
                return z.read("Index/Tables/DataList.iwa")
        with zipfile.ZipFile(dst) as z:
            return z.read("Index/Tables/DataList.iwa")
    finally:
        for p_ in (src, dst):
            if p_.is_dir():
                shutil.rmtree(p_, ignore_errors=True)
            elif p_.exists():
                p_.unlink()


def through_iwork_case(case, rec):
    from vf.gen import docs
    from vf.ref import iwa
    rm = random.Random(f"C05-iwork-{case['seed']}-{case['stream']}-{case['j']}")
    kind = rm.choice(["plain", "unknown", "merge", "repeated", "repeated", "big"])
    if kind == "plain":
        # (the document reader hands the first message of every segment to its handler: a segment without messages is a
        # well-formed stream for IWAFile, but not a document object - those are left to the stream-level parts)
        p = synth(rm.choice([50, 3000, 70000]), rm.choice([1, 3, 12]), rm, header_only_ok=False)
    elif kind == "unknown":
        p = synth(rm.choice([200, 5000]), rm.choice([3, 9]), rm, multi=True, unknown=True)
    elif kind == "merge":
        p = synth_merge(rm, rm.choice([1, 3, 8]))
    elif kind == "repeated":
        p = synth_repeated_ids(rm, rm.choice([2, 4, 9]))
    else:
        p = synth(200000, 5, rm, entropy=True, header_only_ok=False)
    b, _ = iwa.frame(p)
    want = iwa.segments(p)
    rec.hist("through_iwork_kind", kind)
    fx = {"kind": kind, "package": case["package"]}
    try:
        out = through_iwork(b, case["package"], docs.scratch_dir())
    except Exception as e:  # noqa: BLE001
        rec.violation("through_reader_and_writer_raised", {**fx, "exc": type(e).__name__}, {"msg": str(e)[:200]}, case=case)
        return
    rec.count("streams_through_reader_and_writer")
    try:
        got = iwa.segments(iwa.plain(out))
    except Exception as e:  # noqa: BLE001
        rec.violation("written_stream_undecodable", {**fx, "exc": type(e).__name__}, {"msg": str(e)[:200]}, case=case)
        return
    if len(got) != len(want):
        rec.violation("segments_lost_or_added", fx, {"read": len(want), "written": len(got), "identifiers": [ai.identifier for _, ai, _ in want][:12]}, case=case)
    elif [(h_, ms) for h_, _, ms in got] != [(h_, ms) for h_, _, ms in want]:
        k = next(i for i, (a, b_) in enumerate(zip(got, want)) if (a[0], a[2]) != (b_[0], b_[2]))
        rec.violation("segment_bytes_changed", {**fx, "what": "header" if got[k][0] != want[k][0] else "message"}, {"segment": k}, case=case)
    for v in iwa.container_rule_violations(out)[:2]:
        rec.violation("container_rule", {"rule": v.split(":")[-1].strip()[:40], "origin": "through-iwork"}, {"msg": v}, case=case)
    rec.case(("iwork", case["stream"], case["j"], case["package"]), nontrivial=True)


def run_through_iwork(spec, rec):
    for j in range(spec["n"]):
        case = {"part": "through-iwork", "seed": spec["seed"], "stream": spec["stream"], "j": j, "package": j % 3 == 2}
        through_iwork_case(case, rec)
    rec.sample({"through_iwork": spec["n"], "stream": spec["stream"]})


SYN_SIZES = [0, 1, 50, 65535, 65536, 65537, 131071, 131072, 131073, 200000, 1 << 20, 2 << 20]


def run_synthetic(spec, rec):
    from vf.ref import iwa
    rng = random.Random(f"C05-syn-{spec['seed']}-{spec['stream']}")
    combos = [(t, n, m, u, e) for t in SYN_SIZES for n in (1, 3, 40, 400) for m in (False, True) for u in (False, True) for e in (False, True)]
    nstreams = 4 if spec["tier"] == "quick" else 12
    mine = combos[spec["stream"]::nstreams]
    for total, nseg, multi, unknown, entropy in mine:
        if total < nseg and total != 0:
            nseg = 1
        p = synth(total, nseg, rng, multi, unknown, entropy)
        if total == 0:
            # the empty stream: the library must decode it to no archives and encode it back to nothing
            from numbers_parser.iwafile import IWAFile
            try:
                f = IWAFile.from_buffer(b"")
                out = f.to_buffer()
                if out != b"" or lib_segments(f):
                    rec.violation("roundtrip_plaintext", {"kind": "empty-stream"}, {"out": out.hex()}, case={"part": "synthetic", "total": 0})
            except Exception as e:  # noqa: BLE001
                rec.violation("decode_raised", {"exc": type(e).__name__, "origin": "synthetic-empty"}, {"msg": str(e)[:100]}, case={"part": "synthetic", "total": 0})
            rec.case(("empty",), nontrivial=False)
            continue
        b, _ = iwa.frame(p)
        rec.count("synthetic_archives")
        rec.hist("synthetic_total", total)
        if unknown:
            rec.count("synthetic_with_unknown_fields")
        if entropy and total >= 65536:
            rec.count("synthetic_incompressible_64k")
        rc = spec["rechunk"] if len(p) < 300000 else max(2, spec["rechunk"] // 10)
        check_stream(b, rec, f"synthetic:{total}/{nseg}/{int(multi)}/{int(unknown)}/{int(entropy)}",
                     {"part": "synthetic", "total": total, "nseg": nseg, "multi": multi, "unknown": unknown, "entropy": entropy, "seed": spec["seed"], "stream": spec["stream"]},
                     rechunk=rc, rng=rng)
    # segment headers whose length prefix sits at the varint boundaries (1 -> 2 bytes at 128, 2 -> 3 bytes at 16384) and well beyond
    if spec["stream"] == 0:
        for target in (126, 127, 128, 129, 16382, 16383, 16384, 16385, 20000, 32766, 32767, 32768, 32769, 70000):
            p, hdr_len = synth_header(target)
            b, _ = iwa.frame(p)
            rec.count("synthetic_archives")
            rec.count("synthetic_headers_at_varint_boundaries")
            rec.hist("header_length", hdr_len)
            check_stream(b, rec, f"synthetic-header:{target}", {"part": "synthetic-header", "target": target}, rechunk=1, rng=rng)
    # merged segments with patch messages
    for j in range(12 if spec["tier"] == "quick" else 120):
        rm = random.Random(f"C05-merge-{spec['seed']}-{spec['stream']}-{j}")  # its own stream: a witness is rebuilt from (seed, stream, j)
        nseg = rm.choice([1, 2, 5, 20])
        try:
            p = synth_merge(rm, nseg)
        except Exception as e:  # noqa: BLE001
            rec.build_failure(f"synth_merge: {type(e).__name__}")
            continue
        b, _ = iwa.frame(p)
        rec.count("synthetic_archives")
        rec.count("synthetic_with_patch_messages")
        check_stream(b, rec, f"synthetic-merge:{spec['stream']}/{j}", {"part": "synthetic-merge", "seed": spec["seed"], "stream": spec["stream"], "j": j}, rechunk=2, rng=rng)
    # exact sizes around the 64 KiB multiples (only stream 0..2: one multiple each)
    if spec["stream"] < 3:
        k = spec["stream"] + 1
        for total, tz_ in [(65536 * k - 1, False), (65536 * k, False), (65536 * k + 1, False), (65536 * k + 1, True), (65536 * k + 3, True)]:
            for nseg in (1, 3):
                p = synth_exact(total, rng, nseg, tail_zero=tz_)
                if p is None:
                    rec.build_failure("synth_exact")
                    continue
                if tz_:
                    assert p[-1] == 0
                    rec.count("synthetic_last_block_is_valid_snappy")
                b, _ = iwa.frame(p)
                rec.count("synthetic_archives")
                if total % 65536 == 0:
                    rec.count("synthetic_exact_64k_multiple")
                check_stream(b, rec, f"synthetic-exact:{total}/{nseg}", {"part": "synthetic-exact", "total": total, "nseg": nseg, "tail_zero": tz_}, rechunk=3, rng=rng)
    rec.sample({"synthetic": [list(c) for c in mine[:5]]})


def run_shard(spec, rec):
    if "cases" in spec:
        for c in spec["cases"]:
            replay(c, rec)
        return
    {"corpus": run_corpus, "generated": run_generated, "synthetic": run_synthetic, "through-iwork": run_through_iwork}[spec["part"]](spec, rec)


def replay(case, rec):
    from vf.ref import iwa
    rng = random.Random("C05-replay")
    part = case.get("part")
    if part == "member":
        for name, b in members(case["path"]):
            if name == case["member"]:
                if "cuts" in case:
                    _replay_cuts(b, case, rec)
                else:
                    check_stream(b, rec, "replay:" + name, case, rechunk=5, rng=rng)
    elif part == "generated":
        from vf.gen import docs
        r2 = random.Random(case["rseed"])
        size = r2.choice(["small", "small", "small", "tiles", "wide"])
        recipe = docs.rand_recipe(r2, size=size)
        path = os.path.join(docs.scratch_dir(), "replay.numbers")
        doc, _ = docs.build(recipe)
        docs.save(doc, path)
        if case.get("stage") == "second-save":
            try:
                second_edit(doc, case["rseed"])
                docs.save(doc, path)
            except Exception as e:  # noqa: BLE001
                rec.violation("second_save_raised", {"exc": type(e).__name__}, {"msg": str(e)[:200], "rseed": case["rseed"]}, case=case)
                return
        for name, b in members(path):
            if name == case["member"]:
                if "cuts" in case:
                    _replay_cuts(b, case, rec)
                else:
                    check_stream(b, rec, "replay:" + name, case, rechunk=5, rng=rng)
    elif part == "through-iwork":
        through_iwork_case(case, rec)
    elif part == "synthetic-header":
        p, _ = synth_header(case["target"])
        b, _ = iwa.frame(p)
        check_stream(b, rec, "replay:synthetic-header", case, rechunk=1, rng=rng)
    elif part == "synthetic-merge":
        rm = random.Random(f"C05-merge-{case['seed']}-{case['stream']}-{case['j']}")
        p = synth_merge(rm, rm.choice([1, 2, 5, 20]))
        b, _ = iwa.frame(p)
        check_stream(b, rec, "replay:synthetic-merge", case, rechunk=2, rng=rng)
    elif part == "synthetic-exact":
        p = synth_exact(case["total"], rng, case["nseg"], tail_zero=case.get("tail_zero", False))
        b, _ = iwa.frame(p)
        check_stream(b, rec, "replay:synthetic-exact", case, rechunk=3, rng=rng)
    elif part == "synthetic":
        if case.get("total", 1) == 0:
            run_synthetic({"seed": 0, "stream": 0, "tier": "quick", "rechunk": 0}, rec)
            return
        r3 = random.Random(f"C05-syn-{case['seed']}-{case['stream']}")
        # regenerate deterministically: same stream order as run_synthetic
        run_synthetic({"seed": case["seed"], "stream": case["stream"], "tier": "quick" if case["stream"] < 4 else "thorough", "rechunk": 20}, rec)


def _replay_cuts(b, case, rec):
    from numbers_parser.iwafile import IWAFile
    from vf.ref import iwa
    p = iwa.plain(b)
    m = case["stored_mask"]
    b2, _ = iwa.frame(p, case["cuts"], stored=lambda i: bool(m >> i & 1))
    if case.get("empties"):
        b2 = iwa.insert_empty_chunks(b2, case["empties"])
    base = lib_segments(IWAFile.from_buffer(b))
    try:
        got = lib_segments(IWAFile.from_buffer(b2))
    except Exception as e:  # noqa: BLE001
        rec.violation("rechunk_decode_raised", {"exc": type(e).__name__}, {"msg": str(e)[:200]}, case=case)
        return
    if got != base:
        rec.violation("rechunk_changes_content", {"kind": "segments"}, {"n_before": len(base), "n_after": len(got)}, case=case)
    rec.case(("replay", tuple(case["cuts"])))
