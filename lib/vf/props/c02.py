"""C02 - re-saving an unmodified document preserves everything the library reads.

Metamorphic observation: S0 = snapshot of an independent open of the source; the source is
opened again, (optionally every read-only accessor is touched), saved, reopened -> S1;
saved again -> S2.  S0 == S1 on every cell/table the library did not warn about during the
save (formula-error cells, pivot tables - parsed from the warnings and cross-checked), and
S1 == S2.  Variants: {untouched, touched} x {file, package} x cycles.
Corpus: every fixture that opens without an unsupported-version warning, the template, and
documents produced through the editing API.
"""
from __future__ import annotations

import os
import random
import re
import shutil
import warnings

ID = "C02"
LEVEL = "exploration"
CONTRACTS = ("datalist_key",)
REACH = {"Document.save": "Document.save", "_NumbersModel.recalculate_table_data": "recalculate_table_data", "Cell._to_buffer": "Cell._to_buffer",
         "TableFormulas.formula": "TableFormulas.formula", "Cell.formatted_value": "formatted_value", "Style.from_storage": "Style.from_storage"}
ASSUMPTIONS = ["bytes of the package are not compared; object identifiers, UUIDs and string keys may change",
               "exempt exactly: cells named in an 'unsupported data type ... for save' warning that really are ErrorCells, and tables named in a 'Not modifying pivot table' warning",
               "fixtures that open with an unsupported-version warning or do not open are outside the corpus (listed in the evidence)"]
FIELDS = ("cls", "value", "formula", "formatted", "is_bulleted", "bullets", "hyperlinks", "is_merged", "size", "merge_range")


def rule(tier):
    return ("cases = (document, variant in {untouched, touched-all-accessors} x {file, package}, cycle): every fixture that opens without a version warning + the template "
            "+ API-generated documents (" + ("40" if tier == "quick" else "400") + "); S0 (independent open) vs S1 (after save+reopen) vs S2 (second cycle), field by field "
            "over sheets/tables order and names, num_rows/num_cols and per cell class, value, formula, formatted value, bullets, hyperlinks, merge state. "
            "distinct = distinct (document, variant); non-trivial = the document has at least one non-empty cell")


def floors(tier):
    return {"evaluations": 250 if tier == "quick" else 1500, "distinct": 250 if tier == "quick" else 1500,
            "counters": {"fixture_documents": 60, "generated_documents": 30, "cells_compared": 300_000, "formula_cells_compared": 10_000, "cycles_second": 100,
                         "package_saves": 50, "same_object_second_saves": 250, "cases_under_a_dst_time_zone": 60, "touched_variants": 100, "exempt_error_cells": 1}}


def plan(tier, seed):
    from vf import corpus
    ok, excluded = corpus.readable_fixtures()
    specs = []
    for p in ok:
        for variant in (("untouched", False), ("touched", False), ("untouched", True), ("touched", True)):
            if tier == "quick" and variant[1] and variant[0] == "untouched" and hash(p) % 2:
                pass
            spec = {"part": "fixture", "path": p, "touched": variant[0] == "touched", "package": variant[1], "cycles": 2 if tier == "quick" else 3, "tier": tier, "seed": seed}
            if variant == ("touched", False):
                spec["tz"] = "CET-1CEST,M3.5.0,M10.5.0/3"  # this variant runs under a local time zone with daylight saving
            specs.append(spec)
    n = 40 if tier == "quick" else 1600
    k = 10 if tier == "quick" else 64
    for i in range(k):
        spec = {"part": "generated", "n": n // k, "stream": i, "tier": tier, "seed": seed, "cycles": 2 if tier == "quick" else 3}
        if i % 3 == 1:
            spec["tz"] = "NZST-12NZDT,M9.5.0,M4.1.0/3"
        specs.append(spec)
    specs.append({"part": "excluded", "excluded": [list(x) for x in excluded], "tier": tier, "seed": seed})
    # big fixtures first (longest-processing-time scheduling)
    specs.sort(key=lambda s: -os.path.getsize(s["path"]) if s.get("path") and os.path.isfile(s["path"]) else 0)
    return specs


# ---------------------------------------------------------------------------------------
def touch_everything(doc):
    """Call every read-only accessor the property names, on every cell/table."""
    with warnings.catch_warnings():
        warnings.simplefilter("ignore")
        for s in doc.sheets:
            for t in s.tables:
                for row in t.rows():
                    for c in row:
                        for fn in (lambda: c.formula, lambda: c.formatted_value, lambda: c.style, lambda: c.border, lambda: c.bullets):
                            try:
                                fn()
                            except Exception:  # noqa: BLE001 - reading is judged by the snapshot, not here
                                pass
                for r in range(t.num_rows):
                    try:
                        t.row_height(r)
                    except Exception:  # noqa: BLE001
                        pass
                for c_ in range(t.num_cols):
                    try:
                        t.col_width(c_)
                    except Exception:  # noqa: BLE001
                        pass
                try:
                    _ = (t.height, t.width, t.coordinates, t.merge_ranges)
                except Exception:  # noqa: BLE001
                    pass


WARN_CELL = re.compile(r"^@(?P<table>.*):\[(?P<row>\d+),(?P<col>\d+)\]: unsupported data type (?P<cls>\w+) for save$")
WARN_PIVOT = re.compile(r"^Not modifying pivot table '(?P<table>.*)'$")


def exemptions(warns):
    cells = set()
    tables = set()
    for cat, msg in warns:
        m = WARN_CELL.match(msg)
        if m:
            cells.add((m["table"], int(m["row"]), int(m["col"]), m["cls"]))
        m = WARN_PIVOT.match(msg)
        if m:
            tables.add(m["table"])
    return cells, tables


def compare(s0, s1, exempt_cells, exempt_tables, rec, case, label, fields_extra=None):
    """-> number of differences reported (capped)."""
    fx = dict(fields_extra or {})
    n = 0
    if [s["name"] for s in s0] != [s["name"] for s in s1]:
        rec.violation("sheets_order_or_names", {**fx, "stage": label}, {"before": [s["name"] for s in s0], "after": [s["name"] for s in s1]}, case=case)
        return 1
    for sh0, sh1 in zip(s0, s1):
        if [t["name"] for t in sh0["tables"]] != [t["name"] for t in sh1["tables"]]:
            rec.violation("tables_order_or_names", {**fx, "stage": label}, {"sheet": sh0["name"], "before": [t["name"] for t in sh0["tables"]], "after": [t["name"] for t in sh1["tables"]]}, case=case)
            return n + 1
        for t0, t1 in zip(sh0["tables"], sh1["tables"]):
            if t0["name"] in exempt_tables:
                rec.count("exempt_pivot_tables")
                continue
            if (t0["num_rows"], t0["num_cols"]) != (t1["num_rows"], t1["num_cols"]):
                rec.violation("table_dimensions", {**fx, "stage": label}, {"table": t0["name"], "before": [t0["num_rows"], t0["num_cols"]], "after": [t1["num_rows"], t1["num_cols"]]}, case=case)
                n += 1
                continue
            if t0.get("merge_ranges") != t1.get("merge_ranges"):
                rec.violation("merge_ranges", {**fx, "stage": label}, {"table": t0["name"], "before": t0.get("merge_ranges"), "after": t1.get("merge_ranges")}, case=case)
                n += 1
            per_field = {}
            for r0, r1 in zip(t0["cells"], t1["cells"]):
                for c0, c1 in zip(r0, r1):
                    rec.count("cells_compared")
                    if c0.get("formula") is not None:
                        rec.count("formula_cells_compared")
                    if (t0["name"], c0["row"], c0["col"], c0["cls"]) in exempt_cells and c0["cls"] == "ErrorCell":
                        rec.count("exempt_error_cells")
                        continue
                    for f in FIELDS:
                        if c0.get(f) != c1.get(f):
                            per_field.setdefault(f, []).append((c0, c1))
            for f, lst in per_field.items():
                c0, c1 = lst[0]
                rec.violation("cell_field_changed", {**fx, "stage": label, "field": f, "cls_before": c0["cls"], "cls_after": c1["cls"]},
                              {"table": t0["name"], "row": c0["row"], "col": c0["col"], "before": repr(c0.get(f))[:160], "after": repr(c1.get(f))[:160],
                               "n_cells": len(lst), "other_fields": {k: [repr(c0.get(k))[:60], repr(c1.get(k))[:60]] for k in FIELDS if c0.get(k) != c1.get(k)}}, case=case)
                n += 1
    return n


def resave_case(src, touched, package, cycles, rec, case, tag, fields_extra=None):
    from numbers_parser import Document
    from vf import snapshot as S
    from vf.gen import docs
    fx = dict(fields_extra or {})
    fx["touched"] = touched
    if os.environ.get("TZ", "UTC") != "UTC":
        case["tz"] = os.environ["TZ"]  # a witness is replayed under the local time zone it was found under
        rec.count("cases_under_a_dst_time_zone")
    d = docs.scratch_dir()
    with warnings.catch_warnings():
        warnings.simplefilter("ignore")
        s_prev = S.document_snapshot(Document(src))
    nonempty = any(c["cls"] != "EmptyCell" for sh in s_prev for t in sh["tables"] for row in t["cells"] for c in row)
    cur = src
    made = []
    try:
        for cycle in range(1, cycles + 1):
            with warnings.catch_warnings():
                warnings.simplefilter("ignore")
                doc = Document(cur)
            if touched:
                touch_everything(doc)
            out = os.path.join(d, f"c02-{tag}-{cycle}.numbers")
            made.append(out)
            try:
                warns = docs.save(doc, out, package=package)
            except Exception as e:  # noqa: BLE001
                import traceback
                fr = "?"
                for fs in reversed(traceback.extract_tb(e.__traceback__)):
                    if "/numbers_parser/" in fs.filename:
                        fr = fs.name
                        break
                rec.violation("save_raised", {**fx, "exc": type(e).__name__, "frame": fr, "cycle": min(cycle, 2), "package": package}, {"msg": str(e)[:200], "src": os.path.basename(src)}, case=case)
                return
            if package:
                rec.count("package_saves")
            ex_cells, ex_tables = exemptions(warns)
            try:
                with warnings.catch_warnings():
                    warnings.simplefilter("ignore")
                    s_new = S.document_snapshot(Document(out))
            except Exception as e:  # noqa: BLE001
                rec.violation("reopen_raised", {**fx, "exc": type(e).__name__, "cycle": min(cycle, 2), "package": package}, {"msg": str(e)[:200], "src": os.path.basename(src)}, case=case)
                return
            if cycle >= 2:
                rec.count("cycles_second")
            compare(s_prev, s_new, ex_cells, ex_tables, rec, case, "first-cycle" if cycle == 1 else "later-cycle", fx)
            if cycle == 1:
                # the same open, still unmodified Document saved once more: that file, too, must read as the first one does
                out2 = os.path.join(d, f"c02-{tag}-again.numbers")
                made.append(out2)
                try:
                    warns2 = docs.save(doc, out2, package=package)
                    with warnings.catch_warnings():
                        warnings.simplefilter("ignore")
                        s_again = S.document_snapshot(Document(out2))
                except Exception as e:  # noqa: BLE001
                    rec.violation("second_save_of_open_document_raised", {**fx, "exc": type(e).__name__, "package": package}, {"msg": str(e)[:200], "src": os.path.basename(src)}, case=case)
                else:
                    rec.count("same_object_second_saves")
                    ex2c, ex2t = exemptions(warns2)
                    compare(s_new, s_again, ex_cells | ex2c, ex_tables | ex2t, rec, case, "same-object-second-save", fx)
            s_prev = s_new
            cur = out
    finally:
        for p in made:
            if os.path.isdir(p):
                shutil.rmtree(p, ignore_errors=True)
            elif os.path.exists(p):
                os.remove(p)
    if touched:
        rec.count("touched_variants")
    rec.case((os.path.basename(src) if "rseed" not in case else case["rseed"], touched, package), nontrivial=nonempty)


def run_fixture(spec, rec):
    case = {"part": "fixture", "path": spec["path"], "touched": spec["touched"], "package": spec["package"], "cycles": spec["cycles"]}
    resave_case(spec["path"], spec["touched"], spec["package"], spec["cycles"], rec, case, "fx", {"origin": "fixture", "src": os.path.basename(spec["path"])})
    rec.count("fixture_documents") if not spec["touched"] and not spec["package"] else None
    rec.sample({"fixture": os.path.basename(spec["path"]), "touched": spec["touched"], "package": spec["package"], "cycles": spec["cycles"]})


def generated_case(case, rec):
    from vf.gen import docs
    r2 = random.Random(case["rseed"])
    size = r2.choice(["small", "small", "small", "small", "tiles", "wide"])
    recipe = docs.rand_recipe(r2, size=size)
    d = docs.scratch_dir()
    src = os.path.join(d, f"c02-src-{case['rseed']}.numbers")
    try:
        doc, _ = docs.build(recipe)
        docs.save(doc, src)
    except Exception as e:  # noqa: BLE001
        rec.build_failure(f"generated document: {type(e).__name__}")
        return
    try:
        resave_case(src, case["touched"], case["package"], case["cycles"], rec, case, f"g{case['rseed']}", {"origin": "generated"})
    finally:
        if os.path.exists(src):
            os.remove(src)
    rec.count("generated_documents")


def run_generated(spec, rec):
    rng = random.Random(f"C02-gen-{spec['seed']}-{spec['stream']}")
    for i in range(spec["n"]):
        case = {"part": "generated", "rseed": rng.randrange(1 << 40), "touched": rng.random() < .5, "package": rng.random() < .3, "cycles": spec["cycles"]}
        generated_case(case, rec)
        if i == 0:
            rec.sample({"generated": case})


def run_shard(spec, rec):
    if "cases" in spec:
        for c in spec["cases"]:
            replay(c, rec)
        return
    if spec["part"] == "excluded":
        for name, why in spec["excluded"]:
            rec.note(f"excluded from the corpus: {name}: {why}")
        return
    {"fixture": run_fixture, "generated": run_generated}[spec["part"]](spec, rec)


def replay(case, rec):
    if case.get("part") == "fixture":
        resave_case(case["path"], case["touched"], case["package"], case["cycles"], rec, case, "replay", {"origin": "fixture", "src": os.path.basename(case["path"])})
    else:
        generated_case(case, rec)
