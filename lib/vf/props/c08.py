"""C08 - formula text is a faithful infix rendering of the stored expression.

tree -> post-fix node array (the way Numbers stores it: explicit LIST_NODEs for parentheses)
-> attached to a cell through the table's formula list (the library's own formula writer is
experimental and unusable here) -> document saved and reopened -> Cell.formula (the real read
path) -> independent precedence-climbing parser -> tree; the two trees must be equal.  A sample
is also read on the open document before saving and must agree; two reads must agree; a read
must never raise.  Workload: random trees over all 12 binary operators, unary minus, percent,
lists, every known function id at arities 0-4 with empty arguments, 1-D/2-D arrays, literal
dictionaries, same-table references, several host cells; plus exhaustive small cases (every
operator x every pair of operand kinds; every operator nested in every other on each side).
"""
from __future__ import annotations

import os
import random
import warnings
from decimal import Decimal

ID = "C08"
LEVEL = "exploration"
CONTRACTS = ()
REACH = {"TableFormulas.formula": "TableFormulas.formula", "Formula.function": "Formula.function", "Formula.list": "Formula.list", "Formula.array": "Formula.array",
         "Formula.number": "Formula.number", "Formula.string": "Formula.string", "Formula.xref": "Formula.xref", "number_to_str": "number_to_str",
         "Formula.negate": "Formula.negate", "Formula.percent": "Formula.percent", "Formula.date": "Formula.date", "Formula.boolean": "Formula.boolean"}
ASSUMPTIONS = ["storage conventions are taken from the fixtures: operands then operator, explicit LIST_NODE(numArgs=1) for parentheses, FUNCTION_NODE(index,numArgs) with EMPTY_ARGUMENT_NODE, ARRAY_NODE row-major, integer literals as decimal_low with the 0x3040.. high word",
               "the generator parenthesises wherever precedence/associativity conventions could differ between dialects; array literals hold literal elements only; F(<one empty argument>) is identified with F()",
               "formulas are attached through model._formulas.lookup_key + cell._formula_id (construction only, V9); observation is Cell.formula on a reopened document",
               "number literals are non-negative (Numbers stores a NEGATION_NODE), <= 15 significant digits"]


def sizes(tier):
    return {"trees": 20000, "depth": 3, "per_doc": 200} if tier == "quick" else {"trees": 600_000, "depth": 5, "per_doc": 400}


def rule(tier):
    z = sizes(tier)
    return (f"{z['trees']} random expression trees of depth <= {z['depth']} over 12 binary operators, unary minus, percent, lists of 1-3, every function id of FUNCTION_MAP at arities 0-4 with random empty arguments, "
            "1-D and 2-D arrays, literal dictionaries (ints, decimals, 1e15..1e22, strings with quotes/commas/parentheses/operators, both boolean encodings, dates), same-table references, host cells at several positions; "
            "plus every operator x every pair of operand kinds and every operator nested in every other on each side. distinct = distinct serialised node arrays; non-trivial = at least one operator, call, list or array")


def floors(tier):
    z = sizes(tier)
    return {"evaluations": int(z["trees"] * .95), "distinct": int(z["trees"] * (.6 if tier == "quick" else .5)),
            "counters": {"formulas_read_reloaded": int(z["trees"] * .95), "formulas_read_open": 500, "trees_equal": int(z["trees"] * .9), "double_reads": 500, "same_expression_at_two_hosts_of_a_row": 100,
                         "exhaustive_small": 1500},
            "hist_sizes": {"function": 250, "node_kind": 20}}


def plan(tier, seed):
    z = sizes(tier)
    k = 16 if tier == "quick" else 64
    specs = [{"part": "random", "n": z["trees"] // k, "stream": i, "depth": z["depth"], "per_doc": z["per_doc"], "tier": tier, "seed": seed} for i in range(k)]
    specs.append({"part": "small", "tier": tier, "seed": seed})
    return specs


# ---------------------------------------------------------------------------------------
def function_ids():
    from numbers_parser.generated.functionmap import FUNCTION_MAP
    return sorted(FUNCTION_MAP.items())


def enc_tree(t):
    """JSON-able encoding of a tree (replay files)."""
    if t is None:
        return None
    k = t[0]
    if k == "num":
        return ["num", str(t[1])]
    if k in ("str",):
        return ["str", t[1]]
    if k == "bool":
        return ["bool", t[1], t[2] if len(t) > 2 else "boolean"]
    if k == "date":
        return ["date", list(t[1])]
    if k == "ref":
        return ["ref", list(t[1])]
    if k == "bin":
        return ["bin", t[1], enc_tree(t[2]), enc_tree(t[3])]
    if k in ("neg", "pct"):
        return [k, enc_tree(t[1])]
    if k == "paren":
        return ["paren", [enc_tree(x) for x in t[1]]]
    if k == "fn":
        return ["fn", t[1], [enc_tree(a) for a in t[2]], t[3]]
    if k == "arr":
        return ["arr", [[enc_tree(x) for x in r] for r in t[1]]]
    raise ValueError(k)


def dec_tree(e):
    if e is None:
        return None
    k = e[0]
    if k == "num":
        return ("num", Decimal(e[1]))
    if k == "str":
        return ("str", e[1])
    if k == "bool":
        return ("bool", e[1], e[2])
    if k == "date":
        return ("date", tuple(e[1]))
    if k == "ref":
        return ("ref", tuple(e[1]))
    if k == "bin":
        return ("bin", e[1], dec_tree(e[2]), dec_tree(e[3]))
    if k in ("neg", "pct"):
        return (k, dec_tree(e[1]))
    if k == "paren":
        return ("paren", [dec_tree(x) for x in e[1]])
    if k == "fn":
        return ("fn", e[1], [dec_tree(a) for a in e[2]], e[3])
    if k == "arr":
        return ("arr", [[dec_tree(x) for x in r] for r in e[1]])
    raise ValueError(k)


def run_doc(trees, rec, tag, collect=None, ctx=None):
    """trees: list of (tree, host (r,c)) with distinct hosts inside a 10x8 table.  Attach all, read a
    sample open, save, reopen, read all twice, parse, compare."""
    from numbers_parser import Document
    from vf.gen import docs
    from vf.ref import formula as F
    try:
        from numbers_parser.generated import TSCEArchives_pb2 as TSCE
        T = TSCE.ASTNodeArrayArchive
        with warnings.catch_warnings():
            warnings.simplefilter("ignore")
            nrows = max(r for _, (r, c) in trees) + 1
            ncols = max(c for _, (r, c) in trees) + 1
            doc = Document(num_rows=max(nrows, 7), num_cols=max(ncols, 7), num_header_rows=0, num_header_cols=0)
            tb = doc.sheets[0].tables[0]
            m = doc._model
            for tree, (r, c) in trees:
                nodes = []
                F.ser(tree, (r, c), nodes, T)
                fa = TSCE.FormulaArchive(AST_node_array=T(AST_node=nodes))
                key = m._formulas.lookup_key(tb._table_id, fa)
                tb.write(r, c, 1.0)
                tb.cell(r, c)._formula_id = key
    except Exception as e:  # noqa: BLE001 - V9
        rec.build_failure(f"attach formulas: {type(e).__name__}: {str(e)[:80]}")
        return

    def read(table, r, c, view, tree):
        case = {"part": "tree", "tree": enc_tree(tree), "host": [r, c], **({"ctx": ctx} if ctx else {})}
        with warnings.catch_warnings(record=True) as w:
            warnings.simplefilter("always")
            try:
                text = table.cell(r, c).formula
            except Exception as e:  # noqa: BLE001
                import traceback
                fr = "?"
                for fs in reversed(traceback.extract_tb(e.__traceback__)):
                    if "/numbers_parser/" in fs.filename:
                        fr = fs.name
                        break
                rec.violation("read_raised", {"exc": type(e).__name__, "frame": fr, "view": view}, {"msg": str(e)[:200], "kinds": sorted(F.kinds_of(tree))}, case=case)
                return None
        if any("unsupported" in str(x.message) or "stack too small" in str(x.message) for x in w):
            rec.violation("read_warned", {"view": view}, {"warnings": [str(x.message)[:120] for x in w][:3], "text": text}, case=case)
        if not isinstance(text, str):
            rec.violation("read_not_text", {"view": view}, {"got": repr(text)}, case=case)
            return None
        return text
    # a sample on the open document (formula_ast is memoised per table: all formulas are attached already)
    open_texts = {}
    for i, (tree, (r, c)) in enumerate(trees):
        if i % 7 == 0:
            t1 = read(tb, r, c, "open", tree)
            open_texts[(r, c)] = t1
            rec.count("formulas_read_open")
    path = os.path.join(docs.scratch_dir(), f"c08-{tag}.numbers")
    try:
        docs.save(doc, path)
        with warnings.catch_warnings():
            warnings.simplefilter("ignore")
            doc2 = Document(path)
    except Exception as e:  # noqa: BLE001
        rec.violation("save_or_reopen_raised", {"exc": type(e).__name__}, {"msg": str(e)[:300]}, case={"part": "doc", "trees": [enc_tree(t) for t, _ in trees[:3]]})
        if os.path.exists(path):
            os.remove(path)
        return
    try:
        if ctx and ctx.get("j", 1) % (ctx.get("per_doc", 400) * 6) == 0:
            fresh_process_orders(path, trees, rec, ctx)
    finally:
        if os.path.exists(path):
            os.remove(path)
    t2 = doc2.sheets[0].tables[0]
    for tree, (r, c) in trees:
        case = {"part": "tree", "tree": enc_tree(tree), "host": [r, c], **({"ctx": ctx} if ctx else {})}
        text = read(t2, r, c, "reloaded", tree)
        rec.count("formulas_read_reloaded")
        if text is None:
            continue
        if collect is not None:
            collect.append(text)
        again = read(t2, r, c, "reloaded", tree)
        rec.count("double_reads")
        if again != text:
            rec.violation("nondeterministic_read", {}, {"first": text, "second": again}, case=case)
        if (r, c) in open_texts and open_texts[(r, c)] is not None and open_texts[(r, c)] != text:
            rec.violation("open_vs_reloaded_text", {}, {"open": open_texts[(r, c)], "reloaded": text}, case=case)
        try:
            got = F.strip(F.parse(text))
        except F.ParseError as e:
            rec.violation("text_unparsable", {"why": str(e).split(":")[0][:24]}, {"text": text, "err": str(e)[:100], "kinds": sorted(F.kinds_of(tree))}, case=case)
            continue
        want = F.expect(tree)
        d = F.first_difference(want, got)
        if d is not None:
            fields = {"diff": d[1]}
            if d[1] == "literal:num":
                lit = _lit_at(want, d[0])[1]
                # how the literal is stored and rendered: integers below 2^63 are printed from the decimal word, everything else from the double
                if lit == lit.to_integral_value() and abs(lit) < 2 ** 63:
                    fields["literal_path"] = "integer-word"
                else:
                    r = repr(float(lit))
                    fields["literal_path"] = "double:" + ("positive-exponent" if "e+" in r else "negative-exponent" if "e-" in r else "plain")
            rec.violation("tree_differs", fields, {"text": text, "where": d[0], "want": repr(_lit_at(want, d[0]))[:100], "got": repr(_lit_at(got, d[0]))[:100]}, case=case)
        else:
            rec.count("trees_equal")


READER = """
import json, sys, warnings
warnings.simplefilter("ignore")
from numbers_parser import Document
t = Document(sys.argv[1]).sheets[0].tables[0]
out = []
for r, c in json.loads(sys.argv[2]):
    try:
        out.append(t.cell(r, c).formula)
    except Exception as e:
        out.append("raised:" + type(e).__name__)
print(json.dumps(out))
"""


def fresh_process_orders(path, trees, rec, ctx):
    """"Reading a formula is deterministic": the text of a stored expression is a function of the document, not of what the
    process rendered before.  Two fresh interpreters read every formula of the saved file, one in storage order and one in
    reverse; cell by cell the texts must be identical."""
    import json
    import subprocess
    import sys
    hosts = [list(h) for _, h in trees]
    got = []
    for order in (hosts, hosts[::-1]):
        try:
            p = subprocess.run([sys.executable, "-c", READER, path, json.dumps(order)], capture_output=True, text=True, timeout=600)
            got.append(dict(zip(map(tuple, order), json.loads(p.stdout.strip().splitlines()[-1]))))
        except Exception as e:  # noqa: BLE001 - the reader process itself failed: nothing observed
            rec.note(f"fresh-process reader failed: {type(e).__name__}")
            return
    rec.count("documents_read_by_two_fresh_processes")
    for tree, (r, c) in trees:
        rec.count("formulas_read_in_two_orders")
        a, b = got[0].get((r, c)), got[1].get((r, c))
        if a != b:
            rec.violation("text_depends_on_read_order", {"raised": str(a).startswith("raised:") or str(b).startswith("raised:")}, {"forward": a, "reverse": b},
                          case={"part": "tree", "tree": enc_tree(tree), "host": [r, c], "ctx": ctx})
            return


def _lit_at(t, path):
    import re
    for step in re.findall(r"L|R|u|p\d+|a\d+|e\d+\.\d+", path):
        if t is None:
            return t
        if step == "L":
            t = t[2]
        elif step == "R":
            t = t[3]
        elif step == "u":
            t = t[1]
        elif step[0] == "p":
            t = t[1][int(step[1:])]
        elif step[0] == "a":
            t = t[2][int(step[1:])]
        elif step[0] == "e":
            i, j = step[1:].split(".")
            t = t[1][int(i)][int(j)]
    return t


HOSTS = [(r, c) for r in range(40) for c in range(8)]


def gen_trees(rng, n, depth, fids):
    from vf.ref import formula as F
    out = []
    for i in range(n):
        d = rng.randint(1, depth)
        tree = F.norm(F.gen(rng, d, fids, maxref=6))
        out.append(tree)
    return out


def shift_refs(t, dc):
    """The tree whose same-table references all point dc columns further right; None if one would leave the table."""
    if t is None:
        return None
    k = t[0]
    if k == "ref":
        if t[1][1] + dc < 0:
            raise ValueError
        return ("ref", (t[1][0], t[1][1] + dc)) + tuple(t[2:])
    if k == "bin":
        return ("bin", t[1], shift_refs(t[2], dc), shift_refs(t[3], dc))
    if k in ("neg", "pct"):
        return (k, shift_refs(t[1], dc))
    if k == "fn":
        return ("fn", t[1], [shift_refs(a, dc) for a in t[2]]) + tuple(t[3:])
    if k == "paren":
        return ("paren", [shift_refs(x, dc) for x in t[1]])
    if k == "arr":
        return ("arr", [[shift_refs(x, dc) for x in row] for row in t[1]])
    return t


def doc_batches(spec):
    """[(j, [(tree, host)])] of one stream, regenerated from (seed, stream) alone - a witness names its document by j."""
    from vf.ref import formula as F
    rng = random.Random(f"C08-{spec['seed']}-{spec['stream']}")
    fids = function_ids()
    trees = gen_trees(rng, spec["n"], spec["depth"], fids)
    per = spec["per_doc"]
    out = []
    for j in range(0, len(trees), per):
        batch = trees[j:j + per]
        hosts = rng.sample(HOSTS, len(batch)) if len(batch) <= len(HOSTS) else None
        if hosts is None:
            hosts = [(i // 8, i % 8) for i in range(len(batch))]
        pairs = list(zip(batch, hosts))
        # the same stored expression under one formula key at two hosts of one row (a formula filled to the right): the
        # relative references of the copy denote cells shifted with the host
        taken = set(hosts)
        for tree, (r, c) in list(pairs):
            if "ref" not in F.kinds_of(tree) or rng.random() > .25:
                continue
            free = [c2 for c2 in range(8) if (r, c2) not in taken]
            if not free:
                continue
            c2 = rng.choice(free)
            try:
                pairs.append((shift_refs(tree, c2 - c), (r, c2)))
                taken.add((r, c2))
            except ValueError:
                pass
        out.append((j, pairs, trees[j:j + per]))
    return out, trees


def run_random(spec, rec):
    from vf.ref import formula as F
    batches, trees = doc_batches(spec)
    for j, pairs, batch in batches:
        rec.count("same_expression_at_two_hosts_of_a_row", len(pairs) - len(batch))
        run_doc(pairs, rec, f"{spec['stream']}-{j}", ctx={"seed": spec["seed"], "stream": spec["stream"], "n": spec["n"], "depth": spec["depth"], "per_doc": spec["per_doc"], "j": j})
    for t in trees:
        ks = F.kinds_of(t)
        for k in ks:
            rec.hist("node_kind", k)
        rec.case(repr(enc_tree(t)), nontrivial=bool(ks - {"num", "str", "bool", "date", "ref"}))
    def fn_names(t, acc):
        if t is None:
            return
        if t[0] == "fn":
            acc.append(t[1])
            for a in t[2]:
                fn_names(a, acc)
        elif t[0] == "bin":
            fn_names(t[2], acc)
            fn_names(t[3], acc)
        elif t[0] in ("neg", "pct"):
            fn_names(t[1], acc)
        elif t[0] == "paren":
            for x in t[1]:
                fn_names(x, acc)
    acc = []
    for t in trees:
        fn_names(t, acc)
    for nme in acc:
        rec.hist("function", nme)
    if trees:
        rec.sample({"tree": enc_tree(trees[0])})


def run_small(spec, rec):
    """Every operator x every pair of operand kinds; every operator nested in every other on each side;
    every function id once at arity 2 with an empty argument pattern."""
    from vf.ref import formula as F
    fids = function_ids()
    kinds = [("num", Decimal(7)), ("num", Decimal("0.25")), ("str", 'q"q'), ("bool", True, "boolean"), ("bool", False, "token"), ("date", (2024, 2, 29)), ("ref", (1, 1)),
             ("neg", ("num", Decimal(3))), ("pct", ("num", Decimal(5))), ("fn", "SUM", [("num", Decimal(1)), ("num", Decimal(2))], dict((n, i) for i, n in fids).get("SUM", fids[0][0])),
             ("paren", [("num", Decimal(1)), ("str", "x")]), ("arr", [[("num", Decimal(1)), ("str", "a")], [("bool", True, "boolean"), ("num", Decimal("2.5"))]])]
    trees = []
    for op in F.BIN:
        for a in kinds:
            for b in kinds:
                trees.append(F.norm(("bin", op, a, b)))
    for o1 in F.BIN:
        for o2 in F.BIN:
            inner = ("bin", o2, ("num", Decimal(2)), ("ref", (0, 2)))
            trees.append(F.norm(("bin", o1, inner, ("num", Decimal(9)))))
            trees.append(F.norm(("bin", o1, ("num", Decimal(9)), inner)))
            trees.append(F.norm(("neg", ("bin", o1, inner, ("str", "s")))))
    for fid, name in fids:
        trees.append(("fn", name, [("num", Decimal(1)), None, ("str", "z")], fid))
        trees.append(("fn", name, [], fid))
        trees.append(("fn", name, [None], fid))
    for j in range(0, len(trees), 300):
        batch = trees[j:j + 300]
        hosts = [(i // 8, i % 8) for i in range(len(batch))]
        run_doc(list(zip(batch, hosts)), rec, f"small-{j}")
    for t in trees:
        rec.count("exhaustive_small")
        rec.case(repr(enc_tree(t)))
        for k in F.kinds_of(t):
            rec.hist("node_kind", k)
        if t[0] == "fn":
            rec.hist("function", t[1])
    rec.sample({"small": enc_tree(trees[5])})


def rendered_formula_texts(seed, n):
    """Used by C18: formula texts the library rendered from generated expressions."""
    from vf.rec import Recorder
    rng = random.Random(f"C08-for-C18-{seed}")
    fids = function_ids()
    trees = gen_trees(rng, n, 3, fids)
    out = []
    rec = Recorder("C08")
    for j in range(0, len(trees), 300):
        batch = trees[j:j + 300]
        hosts = [(i // 8, i % 8) for i in range(len(batch))]
        run_doc(list(zip(batch, hosts)), rec, f"c18-{j}", collect=out)
    return out


def run_shard(spec, rec):
    if "cases" in spec:
        for c in spec["cases"]:
            replay(c, rec)
        return
    {"random": run_random, "small": run_small}[spec["part"]](spec, rec)


def replay(case, rec):
    if case.get("part") == "tree":
        run_doc([(dec_tree(case["tree"]), tuple(case["host"]))], rec, "replay")
        if case.get("ctx"):
            # what a read returns may depend on the other formulas of the document and on the order of reads: rebuild the whole document
            batches, _ = doc_batches(case["ctx"])
            for j, pairs, _b in batches:
                if j == case["ctx"]["j"]:
                    run_doc(pairs, rec, "replay-doc", ctx=case["ctx"])
        rec.case(repr(case["tree"]))
    elif case.get("part") == "doc":
        trees = [dec_tree(t) for t in case["trees"]]
        run_doc([(t, (i, 0)) for i, t in enumerate(trees)], rec, "replay")
