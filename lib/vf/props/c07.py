"""C07 - every saved package is structurally sound and referentially closed.

Every package the workload saves is the "event log" of a save: it is handed to an independent
structural validator (ref/package.py: zipfile + ref/iwa.py + the generated message classes +
ref/cellrec.py) that checks, with S = objects of the source package and N = objects of the
saved one:
 1. it reopens with Document() and every .iwa member decodes;
 2. identifiers are unique; every identifier in N \\ S is <= PackageMetadata.last_object_identifier;
 3. for every object that is new or whose bytes differ from the source: every TSP.Reference in
    it and every identifier in its ArchiveInfo object_references resolves in N - unless it was
    already unresolved in S;
 4. every added .iwa member is named by a component locator, component identifiers are unique,
    every new DataInfo names an existing Data/ member of the right length;
 5. per table: contiguous tile ids, <= 256 rowInfos per tile with distinct indexes, every global
    row < number_of_rows and stored once, numrows accounts for the rows, offsets in bounds,
    4-byte aligned, strictly increasing, records (decoded by the reference codec) tiling the
    buffer exactly with cell_count of them, header buckets with one in-range header per stored
    row/column, merge rectangles inside the table and disjoint.
Workload: packages after generated edit histories (values, structure, styles, images, custom
formats, borders, captions, merges, control cells, new tables/sheets), dedicated tile-boundary
shapes, second saves, package-folder saves, and a plain re-save of every fixture.
"""
from __future__ import annotations

import os
import random
import shutil
import warnings

ID = "C07"
LEVEL = "exploration"
CONTRACTS = ("record_roundtrip", "iwa")
REACH = {"_NumbersModel.recalculate_table_data": "recalculate_table_data", "_NumbersModel.recalculate_row_info": "recalculate_row_info", "_NumbersModel.save": "model.save",
         "ObjectStore.update_object_file_store": "update_object_file_store", "ObjectStore.create_object_from_dict": "create_object_from_dict",
         "_NumbersModel.add_component_metadata": "add_component_metadata", "_NumbersModel.add_component_reference": "add_component_reference",
         "_NumbersModel.recalculate_merged_cells": "recalculate_merged_cells", "_NumbersModel.add_table": "model.add_table", "_NumbersModel.add_sheet": "model.add_sheet"}
ASSUMPTIONS = ["the validator is a necessary-conditions proxy written from the format notes and from what the fixtures look like; that Apple Numbers accepts the file cannot be observed here",
               "rule 3 is scoped to created / rewritten objects; references that were already unresolved in the source are allowed to stay; orphan objects are not an error",
               "Tile.numrows may count stored rows (Numbers' own files) or declared rows in the tile's span (the library): both account for the rows",
               "pivot tables, which the library declines to rewrite (it says so in a warning), are exempt from rule 5"]
SHAPES = [(255, 2), (256, 2), (257, 3), (512, 1), (513, 2), (2, 256), (3, 257), (2, 1000), (300, 300), (1, 1), (12, 8)]


def rule(tier):
    return ("one case per saved package: generated edit histories (gen/docs recipes: values, inserts/deletes, styles incl. background images, custom formats, borders, captions, merges, "
            "tickbox/rating/slider/stepper/popup cells, new tables and sheets) on new documents and on fixtures, tile-boundary shapes {255,256,257,512,513 rows; 256,257,1000 columns; 300x300}, "
            "second save of the same open document, package-folder saves, plain re-save of every readable fixture; each validated against rules 1-5. "
            "distinct = distinct (source, recipe seed, save form); non-trivial = the package contains at least one library-written table")


def floors(tier):
    return {"evaluations": 320 if tier == "quick" else 5000, "distinct": 320 if tier == "quick" else 5000,
            "counters": {"packages_validated": 380, "tables_validated": 600, "rows_validated": 20000, "cell_records_tiled": 100000, "references_resolved": 100000,
                         "second_saves": 40, "package_form_saves": 40, "fixture_resaves": 60, "multi_tile_tables": 20, "wide_tables": 8, "new_objects_seen": 2000,
                         "documents_with_images": 5, "documents_with_merges": 20, "fixtures_with_every_table_edited": 55}}


def plan(tier, seed):
    from vf import corpus
    specs = []
    n = 240 if tier == "quick" else 5000
    k = 16 if tier == "quick" else 64
    for i in range(k):
        specs.append({"part": "generated", "n": n // k, "stream": i, "tier": tier, "seed": seed})
    for i, sh in enumerate(SHAPES):
        specs.append({"part": "shape", "shape": list(sh), "tier": tier, "seed": seed})
    ok, _ = corpus.readable_fixtures()
    ok = sorted(ok, key=lambda p: -os.path.getsize(p) if os.path.isfile(p) else 0)
    kk = 10
    for i in range(kk):
        specs.append({"part": "fixtures", "paths": ok[i::kk], "tier": tier, "seed": seed})
    specs.append({"part": "fixture_edits", "n": 30 if tier == "quick" else 400, "tier": tier, "seed": seed})
    return specs


# ---------------------------------------------------------------------------------------
_SRC_CACHE = {}


def source_package(path):
    from vf.ref import package as P
    if path not in _SRC_CACHE:
        if len(_SRC_CACHE) > 6:
            _SRC_CACHE.clear()
        _SRC_CACHE[path] = P.load(path)
    return _SRC_CACHE[path]


def validate_saved(path, src_path, save_warnings, rec, case, fx):
    """Rules 1-5 on one saved package."""
    from numbers_parser import Document
    from vf.ref import package as P
    # rule 1: reopens
    try:
        with warnings.catch_warnings():
            warnings.simplefilter("ignore")
            Document(path)
    except Exception as e:  # noqa: BLE001
        rec.violation("saved_package_does_not_reopen", {**fx, "exc": type(e).__name__}, {"msg": str(e)[:300]}, case=case)
        return
    try:
        pkg = P.load(path)
    except Exception as e:  # noqa: BLE001
        rec.violation("saved_package_unreadable_by_validator", {**fx, "exc": type(e).__name__}, {"msg": str(e)[:300]}, case=case)
        return
    src = source_package(src_path) if src_path else None
    pivots = set()
    import re
    for cat, msg in save_warnings:
        m = re.match(r"^Not modifying pivot table '(.*)'$", msg)
        if m:
            pivots.add(m.group(1))
    errs = P.validate(pkg, src, pivot_tables=pivots)
    rec.count("packages_validated")
    ntab = sum(1 for o in pkg.objs.values() if type(o.msg).__name__ == "TableModelArchive")
    rec.count("tables_validated", ntab)
    nrows = ncells = 0
    for o in pkg.objs.values():
        if type(o.msg).__name__ == "Tile":
            nrows += len(o.msg.rowInfos)
            ncells += sum(r.cell_count for r in o.msg.rowInfos)
        elif type(o.msg).__name__ == "TableModelArchive":
            if o.msg.number_of_rows > 256:
                rec.count("multi_tile_tables")
            if o.msg.number_of_columns > 255:
                rec.count("wide_tables")
    rec.count("rows_validated", nrows)
    rec.count("cell_records_tiled", ncells)
    if src is not None:
        rec.count("new_objects_seen", sum(1 for i in pkg.objs if i not in src.objs))
    rec.count("references_resolved", sum(len(P.refs_of(o.msg)) for o in pkg.objs.values() if src is None or o.ident not in src.objs or src.objs[o.ident].raw != o.raw))
    seen = set()
    for rule_, fields, detail in errs:
        key = (rule_, tuple(sorted(fields.items())))
        if key in seen:
            continue
        seen.add(key)
        rec.violation(rule_, {**fx, **fields}, detail, case=case)


def generated_case(case, rec):
    from numbers_parser import Document
    from vf import corpus
    from vf.gen import docs
    rng = random.Random(case["rseed"])
    size = rng.choice(["small", "small", "small", "small", "tiles", "wide"])
    fixture = case.get("fixture")
    recipe = docs.rand_recipe(rng, size=size, fixture=fixture)
    d = docs.scratch_dir()
    path = os.path.join(d, f"c07-{case['rseed']}.numbers")
    fx = {"origin": "fixture-edit" if fixture else "generated"}
    try:
        doc, _ = docs.build(recipe)
    except Exception as e:  # noqa: BLE001
        rec.build_failure(f"recipe: {type(e).__name__}: {str(e)[:60]}")
        return
    kinds = {op["op"] for op in recipe["ops"]}
    if any(op["op"] == "add_style" and "bg_image" in op["kw"] for op in recipe["ops"]):
        rec.count("documents_with_images")
    if "merge" in kinds:
        rec.count("documents_with_merges")
    src_path = fixture or corpus.template_path()
    try:
        package = case.get("package", False)
        try:
            w = docs.save(doc, path, package=package)
        except Exception as e:  # noqa: BLE001
            import traceback
            fr = "?"
            for fs in reversed(traceback.extract_tb(e.__traceback__)):
                if "/numbers_parser/" in fs.filename:
                    fr = fs.name
                    break
            rec.violation("save_raised", {**fx, "exc": type(e).__name__, "frame": fr}, {"msg": str(e)[:300], "ops": sorted(kinds)}, case=case)
            return
        if package:
            rec.count("package_form_saves")
        validate_saved(path, src_path, w, rec, case, {**fx, "save": "first"})
        if case.get("second"):
            try:
                w2 = docs.save(doc, path, package=package)
            except Exception as e:  # noqa: BLE001
                rec.violation("save_raised", {**fx, "exc": type(e).__name__, "frame": "second-save"}, {"msg": str(e)[:300]}, case=case)
                return
            rec.count("second_saves")
            validate_saved(path, src_path, w2, rec, case, {**fx, "save": "second"})
    finally:
        if os.path.isdir(path):
            shutil.rmtree(path, ignore_errors=True)
        elif os.path.exists(path):
            os.remove(path)
    rec.case(("gen", case["rseed"], fixture, case.get("package"), case.get("second")))


def run_generated(spec, rec):
    rng = random.Random(f"C07-gen-{spec['seed']}-{spec['stream']}")
    for i in range(spec["n"]):
        case = {"part": "generated", "rseed": rng.randrange(1 << 40), "package": rng.random() < .2, "second": rng.random() < .25}
        generated_case(case, rec)
        if i == 0:
            rec.sample({"generated": case})


FIX_EDIT = ["test-1.numbers", "test-styles.numbers", "issue-54.numbers", "test-2.numbers", "test-formats.numbers", "test-extra-borders.numbers", "issue-3.numbers", "test-bullets.numbers"]


def run_fixture_edits(spec, rec):
    from vf import corpus
    rng = random.Random(f"C07-fe-{spec['seed']}")
    for i in range(spec["n"]):
        case = {"part": "generated", "rseed": rng.randrange(1 << 40), "package": rng.random() < .15, "second": rng.random() < .25,
                "fixture": os.path.join(corpus.DATA, rng.choice(FIX_EDIT))}
        generated_case(case, rec)


def run_shape(spec, rec):
    from numbers_parser import Document
    from vf import corpus
    from vf.gen import docs
    from vf.gen import values as V
    R, C = spec["shape"]
    rng = random.Random(f"C07-shape-{R}x{C}-{spec['seed']}")
    case = {"part": "shape", "shape": [R, C], "seed": spec["seed"]}
    with warnings.catch_warnings():
        warnings.simplefilter("ignore")
        doc = Document(num_rows=R, num_cols=C)
        t = doc.sheets[0].tables[0]
        for _ in range(min(R * C, 1500)):
            t.write(rng.randrange(R), rng.randrange(C), V.rand_value(rng, "sbifdt"))
        # the last row / column and the tile boundary rows are always populated
        for r in {0, R - 1, min(R - 1, 255), min(R - 1, 256)}:
            t.write(r, C - 1, "edge")
        t2 = doc.sheets[0].add_table("Second", num_rows=min(R, 260), num_cols=min(C, 3))
        t2.write(min(R, 260) - 1, 0, "last")
    d = docs.scratch_dir()
    for package in (False, True):
        path = os.path.join(d, f"c07-shape-{R}x{C}.numbers")
        try:
            w = docs.save(doc, path, package=package)
            validate_saved(path, corpus.template_path(), w, rec, case, {"origin": "shape", "save": "first" if not package else "second"})
            if package:
                rec.count("package_form_saves")
                rec.count("second_saves")
        except Exception as e:  # noqa: BLE001
            rec.violation("save_raised", {"origin": "shape", "exc": type(e).__name__, "frame": "?"}, {"msg": str(e)[:300], "shape": [R, C]}, case=case)
        finally:
            if os.path.isdir(path):
                shutil.rmtree(path, ignore_errors=True)
            elif os.path.exists(path):
                os.remove(path)
        rec.case(("shape", R, C, package))
    rec.sample({"shape": [R, C]})


def run_fixtures(spec, rec):
    from numbers_parser import Document
    from vf.gen import docs
    d = docs.scratch_dir()
    for p in spec["paths"]:
        case = {"part": "fixture", "path": p}
        path = os.path.join(d, "c07-fx.numbers")
        try:
            with warnings.catch_warnings():
                warnings.simplefilter("ignore")
                doc = Document(p)
            w = docs.save(doc, path)
        except Exception as e:  # noqa: BLE001
            rec.violation("save_raised", {"origin": "fixture", "exc": type(e).__name__, "frame": "?"}, {"msg": str(e)[:300], "fixture": os.path.basename(p)}, case=case)
            continue
        try:
            validate_saved(path, p, w, rec, case, {"origin": "fixture", "save": "first"})
            rec.count("fixture_resaves")
        finally:
            if os.path.exists(path):
                os.remove(path)
        rec.case(("fixture", os.path.basename(p)))
        # the same source document with a control, a value and a format put on every one of its tables through the API
        # (tables of source documents keep their lists in archives of many shapes and names): what the save adds must be sound
        try:
            with warnings.catch_warnings():
                warnings.simplefilter("ignore")
                doc = Document(p)
                touched = 0
                for s_ in doc.sheets:
                    for t in list(s_.tables)[:6]:
                        if t.num_rows < 1 or t.num_cols < 1 or t.num_rows * t.num_cols > 20000:
                            continue
                        r, c = t.num_rows - 1, t.num_cols - 1
                        try:
                            t.write(r, c, "opt A")
                            t.set_cell_formatting(r, c, "popup", popup_values=["opt A", "opt B"], allow_none=False)
                            if t.num_cols > 1:
                                t.write(r, c - 1, True)
                                t.set_cell_formatting(r, c - 1, "tickbox")
                            if t.num_rows > 1:
                                t.write(r - 1, c, 1234.5)
                                t.set_cell_formatting(r - 1, c, "number", decimal_places=1, show_thousands_separator=True)
                            touched += 1
                        except Exception:  # noqa: BLE001 - what the API accepts on a source table is not C07's business
                            rec.count("fixture_table_edit_raised")
                if not touched:
                    continue
                w = docs.save(doc, path)
        except Exception as e:  # noqa: BLE001
            rec.violation("save_raised", {"origin": "fixture-every-table-edited", "exc": type(e).__name__, "frame": "?"}, {"msg": str(e)[:300], "fixture": os.path.basename(p)}, case=case)
            continue
        try:
            validate_saved(path, p, w, rec, {"part": "fixture-edited", "path": p}, {"origin": "fixture-every-table-edited", "save": "first"})
            rec.count("fixtures_with_every_table_edited")
            rec.count("fixture_tables_edited", touched)
        finally:
            if os.path.exists(path):
                os.remove(path)
    rec.sample({"fixtures": [os.path.basename(p) for p in spec["paths"][:4]]})


def run_shard(spec, rec):
    if "cases" in spec:
        for c in spec["cases"]:
            replay(c, rec)
        return
    {"generated": run_generated, "shape": run_shape, "fixtures": run_fixtures, "fixture_edits": run_fixture_edits}[spec["part"]](spec, rec)


def replay(case, rec):
    p = case.get("part")
    if p == "generated":
        generated_case(case, rec)
    elif p == "shape":
        run_shape({"shape": case["shape"], "seed": case.get("seed", 0)}, rec)
    elif p in ("fixture", "fixture-edited"):
        run_fixtures({"paths": [case["path"]]}, rec)
