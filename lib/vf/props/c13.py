"""C13 - displayed numbers agree numerically with the stored value.

Each case is a (value, format) pair.  Cells are batched into documents: the value is written,
the format applied with Table.set_cell_formatting, Cell.formatted_value is read on the open
document, the document is saved and reopened, and the text is read again.  Oracle:
ref/numfmt.py parses the text back in the format's own notation and requires
|shown - value| <= half a unit of the last displayed place (inclusive at ties), the number of
decimals shown == the number asked for, decorations (currency symbol/code, accounting tab,
grouping at multiples of three, parentheses, %) never change a digit, the sign or the
magnitude; open and reloaded texts are equal.
"""
from __future__ import annotations

import os
import random
import warnings
from decimal import Decimal

ID = "C13"
LEVEL = "exploration"
CONTRACTS = ()
REACH = {"_format_decimal": "_format_decimal", "_format_currency": "_format_currency", "_format_base": "_format_base", "_format_fraction": "_format_fraction",
         "_format_scientific": "_format_scientific", "_twos_complement": "_twos_complement", "Cell._custom_format": "_custom_format",
         "Table.set_cell_formatting": "set_cell_formatting"}
ASSUMPTIONS = ["at exact ties either neighbour is accepted (no rounding mode is fixed by the statement)",
               "NegativeNumberStyle.RED is documented as 'no minus sign': only the magnitude is compared there",
               "non-integer or out-of-range ratings are outside the documented domain and not generated; a non-integer under a number base must show the value rounded to an integer (either neighbour at a tie)",
               "values have <= 15 significant digits and |x| < 1e15"]
NEG = ["MINUS", "RED", "PARENTHESES", "RED_AND_PARENTHESES"]
FRACS = ["THREE", "TWO", "ONE", "HALVES", "QUARTERS", "EIGTHS", "SIXTEENTHS", "TENTHS", "HUNDRETHS"]
FRAC_VAL = {"THREE": 0xFFFFFFFD, "TWO": 0xFFFFFFFE, "ONE": 0xFFFFFFFF, "HALVES": 2, "QUARTERS": 4, "EIGTHS": 8, "SIXTEENTHS": 16, "TENTHS": 10, "HUNDRETHS": 100}


def rule(tier):
    return ("cases = (value, format): values from C01's numeric domain with |x| < 1e15 plus exact ties (k+0.5)*10^-p, carries (999.995, 0.9995, 9.5), +-0 and powers of ten; formats: "
            "decimal/currency/percentage x places {0..10, auto} x separator x 4 negative styles x accounting, every supported currency at least once, scientific x places 0..10, "
            "base 2..36 x places 0..8 x two's complement for 2/8/16, the 9 fraction accuracies, rating 0..5; each judged on the open document and after save+reopen. "
            "distinct = distinct (repr(value), format parameters); non-trivial = value != 0 or fixed places")


def sizes(tier):
    return {"pairs": 64_000, "per_doc": 400} if tier == "quick" else {"pairs": 1_500_000, "per_doc": 2000}


def floors(tier):
    z = sizes(tier)
    return {"evaluations": int(z["pairs"] * .9), "distinct": int(z["pairs"] * .6),
            "counters": {"judged_open": int(z["pairs"] * .9), "judged_reloaded": int(z["pairs"] * .9), "fmt:number": 2000, "fmt:currency": 2000, "fmt:percentage": 2000,
                         "fmt:scientific": 1500, "fmt:base": 1500, "fmt:fraction": 1500, "fmt:rating": 50, "ties": 500, "negatives": 3000,
                         "twos_complement_cases": 100, "judged_in_two_table_documents": 10000, "values_written_as_int": 2000, "reads_under_a_hostile_decimal_context": 5000},
            "hist_sizes": {"currency": 300}}


def plan(tier, seed):
    z = sizes(tier)
    k = 32 if tier == "quick" else 96
    specs = [{"part": "pairs", "stream": i, "n": z["pairs"] // k, "per_doc": z["per_doc"], "k": k, "tier": tier, "seed": seed} for i in range(k)]
    for i in range(8 if tier == "quick" else 32):
        specs.append({"part": "two", "stream": i, "n": 60 if tier == "quick" else 1500, "tier": tier, "seed": seed})
    return specs


# ---------------------------------------------------------------------------------------
def rand_value(rng, places=None):
    c = rng.random()
    if c < .15:
        return float(rng.randint(-10 ** 6, 10 ** 6))
    if c < .27:
        return rng.choice([0.5, 1.5, 2.5, 0.125, 999.995, 0.9995, 9.5, 99.5, 0.05, 0.005, 1e14, 123456789012345.0, -0.5, -999.995, 0.0, -0.0, 1e-7, 0.1, 0.2, 0.3,
                           1.0, 10.0, 100.0, 1000.0, 1e6, 1e9, 1e12, -1e3, 0.001, 1e-5, 999.5, 9999.5, 999999.5, 0.4999999, 0.00049, -0.004, -0.0049, 1234567.891])
    if c < .4 and places is not None:
        # an exact tie at the displayed place: (k + 0.5) * 10^-p
        k = rng.randint(0, 10 ** rng.randint(0, 6))
        s = f"{'-' if rng.random() < .4 else ''}{k}5e-{places + 1}"
        x = float(s)
        if len(str(k)) + 1 <= 15:
            return x
    digits = rng.randint(1, 15)
    m = rng.randint(10 ** (digits - 1), 10 ** digits - 1)
    e = rng.randint(-digits - 4, 14 - digits)
    return float(f"{'-' if rng.random() < .4 else ''}{m}e{e}")


def rand_format(rng, currencies, idx):
    """-> (type, kw_json, value)"""
    c = rng.random()
    if c < .22:
        t = "number"
    elif c < .44:
        t = "currency"
    elif c < .62:
        t = "percentage"
    elif c < .74:
        t = "scientific"
    elif c < .86:
        t = "base"
    elif c < .985:
        t = "fraction"
    else:
        t = "rating"
    kw = {}
    if t in ("number", "currency", "percentage"):
        places = rng.choice([None, 0, 1, 2, 3, 4, 5, 6, 7, 8, 9, 10])
        if places is not None:
            kw["decimal_places"] = places
        kw["show_thousands_separator"] = rng.random() < .5
        kw["negative_style"] = rng.choice(NEG)
        if t == "currency":
            kw["currency_code"] = currencies[idx % len(currencies)] if rng.random() < .6 else rng.choice(["GBP", "USD", "EUR", "JPY", "CHF", "AUD", "KRW", "XOF"])
            k3 = rng.random()
            if k3 < .3:
                kw["use_accounting_style"] = True
                kw["negative_style"] = "MINUS"
            elif k3 < .5:
                kw["use_accounting_style"] = False  # said explicitly: the negative style asked for stands
        v = rand_value(rng, 2 if (t == "currency" and places is None) else places)
        if t == "percentage" and abs(v) >= 1e13:
            v = v / 1000.0
            v = float(f"{v:.6g}")
    elif t == "scientific":
        kw["decimal_places"] = rng.randint(0, 10)
        v = rand_value(rng)
    elif t == "base":
        base = rng.choice([2, 8, 16, 10, 36, 3, 7, 12, 20, 35] + [rng.randint(2, 36)] * 3)
        kw["base"] = base
        kw["base_places"] = rng.randint(0, 8)
        if base in (2, 8, 16) and rng.random() < .5:
            kw["base_use_minus_sign"] = False
        v = float(rng.choice([0, 1, -1, 255, -255, 2 ** 31 - 1, -2 ** 31, 2 ** 31, -(2 ** 31) - 1, 2 ** 32, -(2 ** 32), 2 ** 40, -2 ** 40, rng.randint(-10 ** 9, 10 ** 9), rng.randint(-10 ** 13, 10 ** 13),
                              rng.randint(-40, 40),
                              # next to a power of two, where the width of a two's complement changes (|v| < 1e15: at most 15 digits)
                              rng.choice([-1, 1]) * (2 ** rng.randint(1, 49) + rng.choice([-2, -1, 0, 1, 2, 3])),
                              -(2 ** rng.randint(44, 49) + rng.choice([0, 1, 2]))]))
        if rng.random() < .3:
            # non-integers are rounded to the nearest integer by the format
            v = rng.choice([0.75, -0.75, 0.25, -0.25, 0.5, 1.5, 2.5, -0.5, 0.49, 0.51, 254.6, -254.6, 1e-9, 0.999999, 35.5, 4294967295.5,
                            rng.randint(-10 ** 6, 10 ** 6) + rng.choice([0.1, 0.5, 0.9, 0.49, 0.51])])
    elif t == "fraction":
        kw["fraction_accuracy"] = rng.choice(FRACS)
        c2 = rng.random()
        if c2 < .3:
            v = rng.choice([0.5, 0.25, 0.75, 1 / 3, 2 / 3, 0.999, 0.9999, 123.456, -7.25, 0.0625, 3.0625, 0.1, 0.01, 0.99, 5.0, 0.0, -0.5, -1 / 3, 1.5, -2.75, 0.49, 0.51, 99.995])
            v = float(f"{v:.15g}")
        else:
            digits = rng.randint(1, 9)
            m = rng.randint(10 ** (digits - 1), 10 ** digits - 1)
            e = rng.randint(-digits - 1, 6 - digits)
            v = float(f"{'-' if rng.random() < .35 else ''}{m}e{e}")
    else:
        v = float(rng.randint(0, 5))
    return t, kw, v


def judge(t, kw, v, text, rec, case, view):
    from vf.ref import numfmt
    if not isinstance(text, str):
        rec.violation("not_text", {"fmt": t, "view": view}, {"text": repr(text)}, case=case)
        return
    if t in ("number", "currency", "percentage"):
        res = numfmt.judge_decimal(text, v, t, kw.get("decimal_places", 2 if t == "currency" else None), kw.get("show_thousands_separator", False),
                                   NEG.index(kw.get("negative_style", "MINUS")), kw.get("use_accounting_style", False))
    elif t == "scientific":
        res = numfmt.judge_scientific(text, v, kw["decimal_places"])
    elif t == "base":
        res = numfmt.judge_base(text, v, kw["base"], kw["base_places"], not kw.get("base_use_minus_sign", True))
    elif t == "fraction":
        res = numfmt.judge_fraction(text, v, FRAC_VAL[kw["fraction_accuracy"]])
    else:
        res = numfmt.judge_rating(text, v)
    for sub, fields, detail in res:
        fields = dict(fields)
        detail = dict(detail)
        if case.get("prev"):
            fields["after"] = case["prev"][-1]["t"]
        detail["view"] = view
        detail["format"] = {"type": t, **kw}
        rec.violation(sub, fields, detail, case=case)


def run_doc(cases, rec, tag):
    """cases: list of {"t","kw","v"}; one document, one cell per case."""
    from numbers_parser import Document
    from vf.gen import docs
    ncols = 8
    nrows = (len(cases) + ncols - 1) // ncols
    with warnings.catch_warnings():
        warnings.simplefilter("ignore")
        doc = Document(num_rows=max(1, nrows), num_cols=ncols, num_header_rows=0, num_header_cols=0)
        t = doc.sheets[0].tables[0]
        placed = []
        for i, cs in enumerate(cases):
            r, c = divmod(i, ncols)
            kw = dict(cs["kw"])
            docs._decode_format_kwargs(kw)
            v = float(cs["v"])
            try:
                # a whole number may arrive as a Python int: the display of 5 and of 5.0 is the same
                if v.is_integer() and abs(v) < 1e15 and i % 2:
                    t.write(r, c, int(v))
                    rec.count("values_written_as_int")
                else:
                    t.write(r, c, v)
                for pv in cs.get("prev", ()):
                    # formats the cell had before: the cell is under the format it was given last
                    pkw = dict(pv["kw"])
                    docs._decode_format_kwargs(pkw)
                    try:
                        t.set_cell_formatting(r, c, pv["t"], **pkw)
                        rec.count("earlier_formats_applied")
                        if (i // 3) % 2:
                            t.cell(r, c).formatted_value  # displayed under the earlier format first
                    except Exception:  # noqa: BLE001
                        rec.count("earlier_formats_refused")
                t.set_cell_formatting(r, c, cs["t"], **kw)
            except Exception as e:  # noqa: BLE001
                rec.violation("format_refused", {"fmt": cs["t"], "exc": type(e).__name__}, {"kw": cs["kw"], "v": cs["v"], "msg": str(e)[:200]}, case={"part": "pair", **cs})
                continue
            placed.append((r, c, cs, v))
        open_texts = {}
        for r, c, cs, v in placed:
            case = {"part": "pair", **cs}
            try:
                if (r + c) % 5 == 0:
                    # what a cell displays does not depend on the caller's decimal context
                    import decimal
                    with decimal.localcontext() as ctx:
                        ctx.prec = 5
                        ctx.rounding = decimal.ROUND_DOWN
                        text = t.cell(r, c).formatted_value
                    rec.count("reads_under_a_hostile_decimal_context")
                else:
                    text = t.cell(r, c).formatted_value
            except Exception as e:  # noqa: BLE001
                rec.violation("formatted_value_raised", {"fmt": cs["t"], "exc": type(e).__name__, "view": "open"}, {"kw": cs["kw"], "v": cs["v"], "msg": str(e)[:200]}, case=case)
                continue
            open_texts[(r, c)] = text
            judge(cs["t"], cs["kw"], v, text, rec, case, "open")
            rec.count("judged_open")
        path = os.path.join(docs.scratch_dir(), f"c13-{tag}.numbers")
        try:
            docs.save(doc, path)
            doc2 = Document(path)
        except Exception as e:  # noqa: BLE001
            rec.violation("save_or_reopen_raised", {"exc": type(e).__name__}, {"msg": str(e)[:200]}, case={"part": "doc", "cases": cases[:3]})
            return
        finally:
            if os.path.exists(path):
                os.remove(path)
        t2 = doc2.sheets[0].tables[0]
        for r, c, cs, v in placed:
            case = {"part": "pair", **cs}
            try:
                cell = t2.cell(r, c)
                text = cell.formatted_value
            except Exception as e:  # noqa: BLE001
                rec.violation("formatted_value_raised", {"fmt": cs["t"], "exc": type(e).__name__, "view": "reloaded"}, {"kw": cs["kw"], "v": cs["v"], "msg": str(e)[:200]}, case=case)
                continue
            if cell.value != v:
                rec.violation("stored_value_changed", {"fmt": cs["t"]}, {"written": repr(v), "read": repr(cell.value)}, case=case)
                continue
            judge(cs["t"], cs["kw"], v, text, rec, case, "reloaded")
            rec.count("judged_reloaded")
            if (r, c) in open_texts and open_texts[(r, c)] != text and v != 0:  # the sign of a zero is not demanded (C01)
                rec.violation("open_vs_reloaded_text", {"fmt": cs["t"]}, {"open": open_texts[(r, c)], "reloaded": text, "kw": cs["kw"], "v": cs["v"]}, case=case)


def run_pairs(spec, rec):
    from numbers_parser.currencies import CURRENCIES
    rng = random.Random(f"C13-{spec['seed']}-{spec['stream']}")
    currencies = sorted(CURRENCIES)
    n = spec["n"]
    made = 0
    doc_i = 0
    while made < n:
        batch = []
        for _ in range(min(spec["per_doc"], n - made)):
            idx = spec["stream"] + spec["k"] * (made + len(batch))
            t, kw, v = rand_format(rng, currencies, idx)
            cs = {"t": t, "kw": kw, "v": repr(v)}
            if rng.random() < .2:
                # (a star rating is only ever given to 0..5: shown under it, a large value would be that many stars)
                cs["prev"] = [{"t": pt, "kw": pkw} for pt, pkw, _ in (rand_format(rng, currencies, idx + 7 * q + 1) for q in range(rng.choice([1, 1, 2]))) if pt != "rating"]
                if not cs["prev"]:
                    del cs["prev"]
                else:
                    rec.count("cases_with_earlier_formats")
                    rec.hist("earlier_format", cs["prev"][-1]["t"] + ">" + t)
            batch.append(cs)
            rec.count("fmt:" + t)
            if t == "currency":
                rec.hist("currency", kw["currency_code"])
            if v < 0:
                rec.count("negatives")
            if "decimal_places" in kw and t != "scientific":
                p = kw["decimal_places"]
                d = Decimal(repr(v)).scaleb(p + (2 if t == "percentage" else 0))
                if d % 1 == Decimal("0.5"):
                    rec.count("ties")
            if t == "base" and not kw.get("base_use_minus_sign", True) and v < 0:
                rec.count("twos_complement_cases")
            rec.case((t, tuple(sorted(kw.items())), repr(v)), nontrivial=v != 0 or "decimal_places" in kw)
        run_doc(batch, rec, f"{spec['stream']}-{doc_i}")
        made += len(batch)
        doc_i += 1
        if doc_i == 1:
            rec.sample(batch[0])


def two_tables_case(case, rec):
    """The same formats applied in two tables of one document, in a different order in each (each table numbers its own
    formats): what a cell shows depends on its own format only."""
    from numbers_parser import Document
    from vf.gen import docs
    cases, order = case["cases"], case["order"]
    ncols = 4
    nrows = (len(cases) + ncols - 1) // ncols
    with warnings.catch_warnings():
        warnings.simplefilter("ignore")
        doc = Document(num_rows=nrows, num_cols=ncols, num_header_rows=0, num_header_cols=0)
        t0 = doc.sheets[0].tables[0]
        t1 = doc.sheets[0].add_table("Second", num_rows=nrows, num_cols=ncols) if case["where"] == "table" else None
        if t1 is None:
            doc.add_sheet("Other", "Second", num_rows=nrows, num_cols=ncols)
            t1 = doc.sheets[1].tables[0]
        placed = []
        for tbl, seq in ((t0, list(range(len(cases)))), (t1, order)):
            for slot, i in enumerate(seq):
                cs = cases[i]
                r, c = divmod(slot, ncols)
                kw = dict(cs["kw"])
                docs._decode_format_kwargs(kw)
                v = float(cs["v"])
                try:
                    tbl.write(r, c, v)
                    tbl.set_cell_formatting(r, c, cs["t"], **kw)
                except Exception as e:  # noqa: BLE001
                    rec.violation("format_refused", {"fmt": cs["t"], "exc": type(e).__name__, "tables": 2}, {"kw": cs["kw"], "v": cs["v"], "msg": str(e)[:200]}, case=case)
                    return
                placed.append((0 if tbl is t0 else 1, r, c, cs, v))

        def judge_all(tables, view):
            for ti, r, c, cs, v in placed:
                try:
                    text = tables[ti].cell(r, c).formatted_value
                except Exception as e:  # noqa: BLE001
                    rec.violation("formatted_value_raised", {"fmt": cs["t"], "exc": type(e).__name__, "view": view, "tables": 2}, {"kw": cs["kw"], "v": cs["v"], "table": ti, "msg": str(e)[:200]}, case=case)
                    continue
                judge(cs["t"], cs["kw"], v, text, rec, case, view + ("/second-table" if ti else ""))
                rec.count("judged_in_two_table_documents")
        judge_all([t0, t1], "open")
        path = os.path.join(docs.scratch_dir(), f"c13-two-{case['rseed']}.numbers")
        try:
            docs.save(doc, path)
            doc2 = Document(path)
        except Exception as e:  # noqa: BLE001
            rec.violation("save_or_reopen_raised", {"exc": type(e).__name__, "tables": 2}, {"msg": str(e)[:200]}, case=case)
            return
        finally:
            if os.path.exists(path):
                os.remove(path)
        tabs2 = [doc2.sheets[0].tables[0], doc2.sheets[0].tables[1] if case["where"] == "table" else doc2.sheets[1].tables[0]]
        judge_all(tabs2, "reloaded")
    rec.case(("two", case["rseed"]), nontrivial=True)


def run_two(spec, rec):
    from numbers_parser.currencies import CURRENCIES
    rng = random.Random(f"C13-two-{spec['seed']}-{spec['stream']}")
    currencies = sorted(CURRENCIES)
    for i in range(spec["n"]):
        k = rng.randint(4, 12)
        cases = []
        for j in range(k):
            t, kw, v = rand_format(rng, currencies, rng.randrange(1000))
            cases.append({"t": t, "kw": kw, "v": repr(v)})
        order = list(range(k))
        rng.shuffle(order)
        case = {"part": "two", "rseed": rng.randrange(1 << 40), "cases": cases, "order": order, "where": rng.choice(["table", "table", "sheet"])}
        two_tables_case(case, rec)
        if i == 0:
            rec.sample({"two_tables": {"formats": [c["t"] for c in cases], "order_in_second_table": order}})


def run_shard(spec, rec):
    if "cases" in spec:
        for c in spec["cases"]:
            replay(c, rec)
        return
    if spec.get("part") == "two":
        return run_two(spec, rec)
    run_pairs(spec, rec)


def replay(case, rec):
    if case.get("part") == "two":
        return two_tables_case(case, rec)
    if case.get("part") == "pair":
        run_doc([{"t": case["t"], "kw": case["kw"], "v": case["v"], **({"prev": case["prev"]} if case.get("prev") else {})}], rec, "replay")
        rec.case(("replay", str(case)))
    elif case.get("part") == "doc":
        run_doc(case["cases"], rec, "replay")
