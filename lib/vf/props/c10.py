"""C10 - A1-notation conversion functions are mutually inverse bijections.

The enumeration is the workload: all 18 278 column names (both tiers); all rows
0..1 000 000 x 4 '$' combinations x 6 columns (thorough) or a strided + boundary subset
(quick); xl_range collapse over a corner grid; negative coordinates.  Oracle: ref/a1.py
(bijective base-26 from the definition) plus the algebraic properties themselves
(injective, order preserving, length classes), plus the inline a1_inverse contract.
"""
from __future__ import annotations

import random

ID = "C10"
LEVEL = "exploration"
SUITE_UNDER_MONITORS = True  # thorough tier: the unedited repository tests run with this property's contracts loaded
SUITE_CONTRACTS = ("a1_inverse",)
CONTRACTS = ("a1_inverse",)
REACH = {"xl_col_to_name": "xl_col_to_name", "xl_rowcol_to_cell": "xl_rowcol_to_cell",
         "xl_cell_to_rowcol": "xl_cell_to_rowcol", "xl_range": "xl_range", "col_to_index": "tokenizer.col_to_index"}
ASSUMPTIONS = ["ref/a1.py (12 lines, divmod-based bijective base-26) is the definition of the column naming",
               "four-letter columns (>= 18278) are outside the property"]
NCOLS = 18278
MAXROW = 1_000_000
COLS6 = [0, 25, 26, 701, 702, 18277]
ROW_SHARDS = 15


def rule(tier):
    return ("enumeration: every column 0..18277 (name vs ref, injective, order/length classes, 4 inverse functions); "
            + ("every row 0..1000000" if tier == "thorough" else "every 97th row plus every row within 300 of a power of 2 or 10")
            + " x 4 '$' combinations x columns {0,25,26,701,702,18277} round-tripped; xl_range over a 40x40 corner grid + random pairs; "
              "negatives -1000..-1 and huge. A case is distinct by (function, arguments); all are non-trivial (each compares library output with the reference).")


def exhaustive(tier):
    return tier == "thorough"


def floors(tier):
    return {"evaluations": 200_000 if tier == "quick" else 20_000_000, "distinct": 200_000 if tier == "quick" else 20_000_000,
            "counters": {"contract:a1_inverse.col": 18278, "contract:a1_inverse.cell": 1000, "contract:a1_inverse.parse": 1000,
                         "cols_checked": NCOLS, "tokenizer_cols": NCOLS, "negatives_rejected": 2000,
                         "calls_in_random_order": 150_000, "tokenizer_ranges_with_unequal_marks": 10_000}}


def quick_rows():
    rows = set(range(0, MAXROW + 1, 97))
    p = 1
    while p <= 2 * MAXROW:
        rows.update(range(max(0, p - 300), min(MAXROW, p + 300) + 1))
        p *= 2
    p = 1
    while p <= MAXROW:
        rows.update(range(max(0, p - 300), min(MAXROW, p + 300) + 1))
        p *= 10
    return sorted(rows)


def plan(tier, seed):
    specs = [{"part": "cols", "seed": seed, "tier": tier}, {"part": "ranges", "seed": seed, "tier": tier}]
    for i in range(4 if tier == "quick" else 16):
        specs.append({"part": "mixed", "seed": seed, "stream": i, "n": 50_000 if tier == "quick" else 500_000, "tier": tier})
    if tier == "thorough":
        step = (MAXROW + 1 + ROW_SHARDS - 1) // ROW_SHARDS
        for i in range(ROW_SHARDS):
            specs.append({"part": "rows", "lo": i * step, "hi": min(MAXROW + 1, (i + 1) * step), "tier": tier, "seed": seed})
    else:
        rows = quick_rows()
        k = 6
        for i in range(k):
            specs.append({"part": "rowlist", "rows": rows[i::k], "tier": tier, "seed": seed})
    return specs


def _vio(rec, sub, fields, detail, case):
    rec.violation(sub, fields, detail, case=case)


def check_cols(rec, cols=None, case=None):
    from numbers_parser import xrefs
    from numbers_parser.tokenizer import parse_numbers_range
    from numbers_parser import Document
    from vf.ref import a1
    model = Document()._model
    names = {}
    prev = None
    cols = range(NCOLS) if cols is None else cols
    full = case is None
    for col in cols:
        c = {"part": "col", "col": col}
        try:
            name = xrefs.xl_col_to_name(col)
        except Exception as e:
            _vio(rec, "col_name", {"kind": "raised", "exc": type(e).__name__}, {"col": col}, c)
            continue
        want = a1.col_name(col)
        if name != want:
            _vio(rec, "col_name", {"kind": "mismatch"}, {"col": col, "got": name, "want": want}, c)
        if name in names:
            _vio(rec, "col_name", {"kind": "repeat"}, {"col": col, "other": names[name], "name": name}, c)
        names[name] = col
        explen = 1 if col < 26 else 2 if col < 702 else 3
        if len(name) != explen:
            _vio(rec, "col_name", {"kind": "length-class"}, {"col": col, "name": name}, c)
        if full and prev is not None and not ((len(prev), prev) < (len(name), name)):
            _vio(rec, "col_name", {"kind": "order"}, {"col": col, "prev": prev, "name": name}, c)
        prev = name
        ab = xrefs.xl_col_to_name(col, True)
        if ab != "$" + want:
            _vio(rec, "col_name", {"kind": "abs-marker"}, {"col": col, "got": ab}, c)
        # inverses
        for text in (name, ab):
            try:
                back = xrefs.xl_col_to_offset(text)
            except Exception as e:
                _vio(rec, "col_offset", {"kind": "raised", "exc": type(e).__name__}, {"text": text}, c)
                continue
            if back != col:
                _vio(rec, "col_offset", {"kind": "not-inverse"}, {"text": text, "got": back, "want": col}, c)
        for row in (0, 8, 999_999):
            for ra in (False, True):
                for ca in (False, True):
                    text = a1.cell_name(row, col, ra, ca)
                    try:
                        back = xrefs.xl_cell_to_rowcol(text)
                    except Exception as e:
                        _vio(rec, "cell_parse", {"kind": "raised", "exc": type(e).__name__}, {"text": text}, c)
                        continue
                    if tuple(back) != (row, col):
                        _vio(rec, "cell_parse", {"kind": "not-inverse"}, {"text": text, "got": list(back)}, c)
        # the tokenizer's own column parser, reached through the public range parser
        try:
            r = parse_numbers_range(model, f"{name}:{name}")
            if r.col_start != col or r.col_end != col:
                _vio(rec, "tokenizer_col", {"kind": "not-inverse"}, {"name": name, "got": [r.col_start, r.col_end]}, c)
            r = parse_numbers_range(model, f"${name}$7")
            if r.col_start != col or r.row_start != 6 or not r.col_start_is_abs or not r.row_start_is_abs:
                _vio(rec, "tokenizer_col", {"kind": "cell-not-inverse"}, {"name": name, "got": [r.row_start, r.col_start]}, c)
            rec.count("tokenizer_cols")
        except Exception as e:
            _vio(rec, "tokenizer_col", {"kind": "raised", "exc": type(e).__name__}, {"name": name}, c)
        rec.count("cols_checked")
    n = len(cols)
    rec.bulk(n * 17, n * 17)
    rec.sample({"col": 18277, "name": xrefs.xl_col_to_name(18277), "ref": a1.col_name(18277)})


def check_negatives(rec):
    from numbers_parser import xrefs
    negs = list(range(-1000, 0)) + [-(10 ** 6), -(2 ** 31), -(2 ** 63) - 1]
    for n in negs:
        for what, fn in (("xl_col_to_name", lambda: xrefs.xl_col_to_name(n)),
                         ("xl_rowcol_to_cell(row<0)", lambda: xrefs.xl_rowcol_to_cell(n, 0)),
                         ("xl_rowcol_to_cell(col<0)", lambda: xrefs.xl_rowcol_to_cell(0, n)),
                         ("xl_rowcol_to_cell(both<0)", lambda: xrefs.xl_rowcol_to_cell(n, n, True, True)),
                         ("xl_range(first_row<0)", lambda: xrefs.xl_range(n, 0, 3, 3)),
                         ("xl_range(last_col<0)", lambda: xrefs.xl_range(0, 0, 3, n))):
            c = {"part": "neg", "n": n, "fn": what}
            try:
                got = fn()
                _vio(rec, "negative", {"kind": "produced-a-name", "fn": what}, {"n": n, "got": got}, c)
            except IndexError:
                rec.count("negatives_rejected")
            except Exception as e:
                _vio(rec, "negative", {"kind": "wrong-exception", "fn": what, "exc": type(e).__name__}, {"n": n}, c)
    rec.bulk(len(negs) * 6, len(negs) * 6)


def check_rows(rec, rows):
    from numbers_parser import xrefs
    from vf.ref import a1
    n = 0
    for row in rows:
        rs = str(row + 1)
        for col in COLS6:
            cn = a1.col_name(col)
            for ra in (False, True):
                for ca in (False, True):
                    n += 1
                    want = ("$" if ca else "") + cn + ("$" if ra else "") + rs
                    try:
                        text = xrefs.xl_rowcol_to_cell(row, col, ra, ca)
                        back = xrefs.xl_cell_to_rowcol(text)
                    except Exception as e:
                        _vio(rec, "row_roundtrip", {"kind": "raised", "exc": type(e).__name__}, {"row": row, "col": col},
                             {"part": "row", "row": row})
                        continue
                    if text != want:
                        _vio(rec, "cell_name", {"kind": "mismatch"}, {"row": row, "col": col, "got": text, "want": want}, {"part": "row", "row": row})
                    if back[0] != row or back[1] != col:
                        _vio(rec, "row_roundtrip", {"kind": "not-inverse"}, {"row": row, "col": col, "text": text, "back": list(back)},
                             {"part": "row", "row": row})
    rec.bulk(n, n)
    rec.count("rows_checked", len(rows))
    if rows:
        r = rows[len(rows) // 2]
        rec.sample({"row": r, "col": 702, "text": xrefs.xl_rowcol_to_cell(r, 702, True, False)})


def check_ranges(rec, seed, tier):
    from numbers_parser import xrefs
    from vf.ref import a1
    grid_r = [0, 1, 2, 8, 9, 10, 98, 99, 100, 254, 255, 256, 257, 998, 999, 1000, 9998, 9999, 10000, 65535, 65536, 99999, 100000,
              499999, 500000, 999998, 999999, 1000000, 3, 4, 5, 6, 7, 11, 12, 13, 511, 512, 513, 4095]
    grid_c = [0, 1, 2, 24, 25, 26, 27, 51, 52, 53, 254, 255, 256, 257, 700, 701, 702, 703, 727, 728, 998, 999, 1000, 1377, 1378, 18275,
              18276, 18277, 3, 4, 5, 675, 676, 677, 17575, 17576, 17577, 9999, 10000, 10001]
    corners = [(r, c) for r, c in zip(grid_r, grid_c)]
    pairs = [(a, b) for a in corners for b in corners]
    rng = random.Random(f"C10-ranges-{seed}")
    nrand = 100_000 if tier == "quick" else 1_000_000
    for _ in range(nrand):
        a = (rng.choice(grid_r) if rng.random() < .5 else rng.randrange(MAXROW + 1), rng.choice(grid_c) if rng.random() < .5 else rng.randrange(NCOLS))
        b = a if rng.random() < .2 else ((a[0], rng.randrange(NCOLS)) if rng.random() < .3 else (rng.randrange(MAXROW + 1), rng.randrange(NCOLS)))
        pairs.append((a, b))
    n = 0
    collapsed = 0
    for a, b in pairs:
        n += 1
        c = {"part": "range", "a": list(a), "b": list(b)}
        try:
            text = xrefs.xl_range(a[0], a[1], b[0], b[1])
        except Exception as e:
            _vio(rec, "range", {"kind": "raised", "exc": type(e).__name__}, c, c)
            continue
        single = ":" not in text
        if single != (a == b):
            _vio(rec, "range", {"kind": "collapse-iff-equal"}, {"a": list(a), "b": list(b), "text": text}, c)
        collapsed += single
        want = a1.cell_name(*a) if a == b else a1.cell_name(*a) + ":" + a1.cell_name(*b)
        if text != want:
            _vio(rec, "range", {"kind": "text"}, {"a": list(a), "b": list(b), "text": text, "want": want}, c)
    rec.count("range_pairs", n)
    rec.count("range_collapsed", collapsed)
    rec.case(None, n=0)
    keys = {(a, b) for a, b in pairs}
    rec.bulk(n, len(keys))
    rec.sample({"range": [list(pairs[-1][0]), list(pairs[-1][1])], "text": xrefs.xl_range(*pairs[-1][0], *pairs[-1][1])})


def check_mixed(rec, seed, stream, n, start=0, stop=None):
    """The conversions called in random order on random arguments (an answer must not depend on what was asked before), and the
    tokenizer's range parser on two-corner ranges whose four '$' marks are independent of each other."""
    from numbers_parser import Document, xrefs
    from numbers_parser.tokenizer import parse_numbers_range
    from vf.ref import a1
    model = Document()._model
    rng = random.Random(f"C10-mixed-{seed}-{stream}")
    pool = [0, 1, 2, 24, 25, 26, 27, 28, 51, 52, 53, 54, 77, 78, 700, 701, 702, 703, 704, 727, 728, 729, 1377, 1378, 1379, 18276, 18277]
    done = 0
    for i in range(n):
        k = rng.random()
        col = rng.choice(pool) if rng.random() < .4 else rng.randrange(NCOLS)
        row = rng.choice([0, 1, 8, 9, 98, 99, 999_999]) if rng.random() < .4 else rng.randrange(MAXROW + 1)
        col2 = rng.choice(pool) if rng.random() < .4 else rng.randrange(NCOLS)
        row2 = rng.randrange(MAXROW + 1)
        fl = [rng.random() < .5 for _ in range(4)]
        if stop is not None and not (start <= i < stop):
            if stop <= i:
                break
        c = {"part": "mixed", "seed": seed, "stream": stream, "i": i}
        done += 1
        try:
            if k < .25:
                name = a1.col_name(col)
                got = xrefs.xl_col_to_offset(("$" if fl[0] else "") + name)
                if got != col:
                    _vio(rec, "col_offset", {"kind": "not-inverse", "order": "random"}, {"text": name, "got": got, "want": col}, c)
            elif k < .45:
                got = xrefs.xl_col_to_name(col, fl[0])
                if got != ("$" if fl[0] else "") + a1.col_name(col):
                    _vio(rec, "col_name", {"kind": "mismatch", "order": "random"}, {"col": col, "got": got}, c)
            elif k < .65:
                text = a1.cell_name(row, col, fl[0], fl[1])
                got = xrefs.xl_cell_to_rowcol(text)
                if tuple(got) != (row, col):
                    _vio(rec, "cell_parse", {"kind": "not-inverse", "order": "random"}, {"text": text, "got": list(got)}, c)
            elif k < .8:
                got = xrefs.xl_rowcol_to_cell(row, col, fl[0], fl[1])
                if got != a1.cell_name(row, col, fl[0], fl[1]):
                    _vio(rec, "cell_name", {"kind": "mismatch", "order": "random"}, {"row": row, "col": col, "got": got}, c)
            else:
                # row_abs1, col_abs1, row_abs2, col_abs2 drawn independently
                text = a1.cell_name(row, col, fl[0], fl[1]) + ":" + a1.cell_name(row2, col2, fl[2], fl[3])
                r = parse_numbers_range(model, text)
                got = [r.row_start, r.col_start, r.row_end, r.col_end, bool(r.row_start_is_abs), bool(r.col_start_is_abs), bool(r.row_end_is_abs), bool(r.col_end_is_abs)]
                want = [row, col, row2, col2, fl[0], fl[1], fl[2], fl[3]]
                rec.count("tokenizer_two_corner_ranges")
                if fl[1] != fl[3] or fl[0] != fl[2]:
                    rec.count("tokenizer_ranges_with_unequal_marks")
                if got != want:
                    _vio(rec, "tokenizer_range", {"kind": "marks" if got[:4] == want[:4] else "coordinates"}, {"text": text, "got": got, "want": want}, c)
        except Exception as e:  # noqa: BLE001
            _vio(rec, "mixed_call_raised", {"exc": type(e).__name__, "call": int(k * 5)}, {"row": row, "col": col, "msg": str(e)[:100]}, c)
    rec.count("calls_in_random_order", done)
    rec.bulk(done, done)


def run_shard(spec, rec):
    if "cases" in spec:
        for c in spec["cases"]:
            replay(c, rec)
        return
    part = spec["part"]
    if part == "mixed":
        check_mixed(rec, spec["seed"], spec["stream"], spec["n"])
        rec.sample({"mixed_calls": spec["n"], "stream": spec["stream"]})
        return
    if part == "cols":
        check_cols(rec)
        check_negatives(rec)
    elif part == "rows":
        check_rows(rec, range(spec["lo"], spec["hi"]))
    elif part == "rowlist":
        check_rows(rec, spec["rows"])
    elif part == "ranges":
        check_ranges(rec, spec["seed"], spec["tier"])


def replay(case, rec):
    part = case.get("part")
    if part == "mixed":
        # the history up to and including the call matters: replay the whole prefix
        check_mixed(rec, case["seed"], case["stream"], case["i"] + 1)
        return
    if part == "col":
        check_cols(rec, [case["col"]], case=case)
    elif part == "neg":
        check_negatives(rec)
    elif part == "row":
        check_rows(rec, [case["row"]])
    elif part == "range":
        from numbers_parser import xrefs
        a, b = tuple(case["a"]), tuple(case["b"])
        text = xrefs.xl_range(a[0], a[1], b[0], b[1])
        if (":" not in text) != (a == b):
            rec.violation("range", {"kind": "collapse-iff-equal"}, {"text": text}, case=case)
        from vf.ref import a1
        want = a1.cell_name(*a) if a == b else a1.cell_name(*a) + ":" + a1.cell_name(*b)
        if text != want:
            rec.violation("range", {"kind": "text"}, {"text": text, "want": want}, case=case)
