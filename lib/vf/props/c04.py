"""C04 - cell storage records decode to exactly what was encoded, field by field.

encoder: 8 encodable kinds x all 2^12 subsets of optional ids (distinct sentinel per field),
  Cell._to_buffer -> (a) ref/cellrec decode, (b) the library's own _from_storage (stub model);
decoder: 9 decodable kinds x subsets of the 16 non-payload flag bits (+ payload-bit variants),
  records produced by ref/cellrec.encode -> Cell._from_storage must return the ids put in;
corpus : every stored record of every fixture through the inline record_decode contract, and
  every formula id so decoded must resolve in its table's formula list.
"""
from __future__ import annotations

import itertools
import os
import random
import struct
import warnings
from datetime import datetime, timedelta

ID = "C04"
LEVEL = "exploration"
SUITE_UNDER_MONITORS = True  # thorough tier: the unedited repository tests run with this property's contracts loaded
SUITE_CONTRACTS = ("record_roundtrip", "record_decode")
CONTRACTS = ("record_roundtrip", "record_decode")
REACH = {"Cell._to_buffer": "Cell._to_buffer", "Cell._from_storage": "Cell._from_storage"}
ASSUMPTIONS = ["ref/cellrec.py is the published v5 layout: 12-byte header, then one field per set flag bit in ascending bit order (16/8/8 bytes for bits 0-2, 4 bytes for bits 3-20)",
               "values of fields the library does not interpret (0x80, 0x100, 0x800, 0x80000, 0x100000) only have to be skipped in place",
               "payloads are drawn from C01's domains (floats of <= 15 significant digits)"]

OPT = ["_rich_id", "_cell_style_id", "_text_style_id", "_formula_id", "_control_id", "_suggest_id", "_num_format_id",
       "_currency_format_id", "_date_format_id", "_duration_format_id", "_text_format_id", "_bool_format_id"]
ENC_KINDS = ["number", "currency", "text", "date", "bool", "duration", "empty", "rich"]
TYPE = {"number": 2, "currency": 10, "text": 3, "date": 5, "bool": 6, "duration": 7, "empty": 0, "rich": 9, "error": 8}
CLS = {"number": "NumberCell", "currency": "NumberCell", "text": "TextCell", "date": "DateCell", "bool": "BoolCell",
       "duration": "DurationCell", "empty": "EmptyCell", "rich": "RichTextCell", "error": "ErrorCell"}
PAYLOAD_BIT = {"number": 0x1, "currency": 0x1, "text": 0x8, "date": 0x4, "bool": 0x2, "duration": 0x2, "empty": 0, "rich": 0x10, "error": 0}
NONPAYLOAD_BITS = [1 << b for b in range(5, 21)]  # 0x20 .. 0x100000 (16 bits)
UNINTERPRETED = 0x80 | 0x100 | 0x800 | 0x80000 | 0x100000


class MC:
    def get(self, k):
        return None


class Stub:
    """Minimal model for direct record codec calls (V9: workload construction, not observation)."""

    def __init__(self):
        self.strings = {}
        self.rev = {}

    def table_string(self, tid, key):
        return self.strings.get(key, "<missing>")

    def table_string_key(self, tid, val):
        if val in self.rev:
            return self.rev[val]
        k = 0x7100 + len(self.strings)
        self.strings[k] = val
        self.rev[val] = k
        return k

    def table_rich_text(self, tid, key):
        return {"text": f"rich{key}", "bullets": [], "hyperlinks": [], "bulleted": False, "bullet_chars": []}

    def merge_cells(self, tid):
        return MC()

    def table_name(self, tid):
        return "T"


def rule(tier):
    return ("encoder cases: (kind, subset of the 12 optional ids) over 8 kinds x 4096 subsets, exhaustive, each with sentinel ids 0x1000*(i+1)+r and "
            "a payload from C01's domains; decoder cases: (kind, flag set) with records from the reference encoder - "
            + ("all 2^16 subsets of the non-payload bits x 9 kinds plus payload-bit variants" if tier == "thorough" else
               "all subsets with <=3 or >=13 of the 16 non-payload bits x 9 kinds plus 30k random flag sets")
            + "; corpus cases: every stored record of every fixture. distinct = distinct (direction, kind, flag set); non-trivial = carries >= 1 optional field")


def exhaustive(tier):
    return tier == "thorough"


def floors(tier):
    return {"evaluations": 60_000, "distinct": 30_000,
            "counters": {"enc_cases": 32768, "dec_cases": 20_000 if tier == "quick" else 500_000, "corpus_records": 50_000,
                         "contract:record_roundtrip": 32768, "contract:record_decode": 100_000,
                         "dec_with_uninterpreted_before_interpreted": 1000,
                         "enc_cases_with_a_zero_id": 3000, "dec_cases_with_a_zero_id": 5000, "dec_cases_with_long_coefficient": 3000, "dec_cases_with_coefficient_above_2_112": 500, "enc_cases_with_16_17_digit_payload": 500, "enc_cases_with_aware_datetime": 300, "doc_cells_with_ids": 5000, "doc_empty_cells_with_ids": 500}}


def plan(tier, seed):
    specs = []
    for k in ENC_KINDS:
        specs.append({"part": "enc", "kind": k, "seed": seed, "tier": tier, "payloads": 3 if tier == "quick" else 24})
    kinds = list(TYPE)
    if tier == "thorough":
        for k in kinds:
            for half in range(2):
                specs.append({"part": "dec", "kind": k, "mode": "all", "half": half, "seed": seed, "tier": tier})
    else:
        for k in kinds:
            specs.append({"part": "dec", "kind": k, "mode": "edges+random", "seed": seed, "tier": tier})
    from vf import corpus
    paths = corpus.fixture_paths() + [corpus.template_path()]
    n = 8
    for i in range(n):
        specs.append({"part": "corpus", "paths": paths[i::n], "seed": seed, "tier": tier})
    for i in range(4 if tier == "quick" else 16):
        specs.append({"part": "documents", "stream": i, "n": 25 if tier == "quick" else 400, "seed": seed, "tier": tier})
    return specs


def payload_value(kind, rng):
    if kind in ("number", "currency"):
        c = rng.random()
        if c < .25:
            return float(rng.randrange(-10 ** 6, 10 ** 6))
        if c < .5:
            return rng.randrange(0, 10 ** 7) / 100.0
        if c < .7:
            # any finite double is a legal payload of a record (a file may carry 16-17 significant digits):
            # full-precision values, with the top of every binade (significand near 2**57 in decimal) well represented
            x = (rng.uniform(7.2, 8.0) if rng.random() < .5 else rng.random()) * 2.0 ** rng.randrange(-40, 40)
            return -x if rng.random() < .5 else x
        m = rng.randrange(1, 10 ** 15)
        e = rng.randrange(-30, 30)
        return float(f"{'-' if rng.random() < .5 else ''}{m}e{e - 14}")
    if kind == "text":
        return rng.choice(["hello", "", "a\nb", "é𝔘", "x" * 300, " "]) + str(rng.randrange(100))
    if kind == "date":
        v = datetime(2001, 1, 1) + timedelta(seconds=rng.randrange(-3 * 10 ** 9, 3 * 10 ** 9), microseconds=rng.choice([0, 0, 1, 500, 999000, 999999, rng.randrange(10 ** 6)]))
        if rng.random() < .15:
            # a time-zone-aware value names an instant; the record holds that instant (seconds from the epoch, UTC; TZ is pinned to UTC)
            from datetime import timezone
            v = v.replace(tzinfo=timezone(timedelta(minutes=rng.choice([0, 330, -480, 60, 765, -210]))))
        return v
    if kind == "bool":
        return rng.random() < .5
    if kind == "duration":
        return timedelta(seconds=rng.randrange(-10 ** 8, 10 ** 8), milliseconds=rng.randrange(1000), microseconds=rng.choice([0, 0, 1, 500, 999, rng.randrange(1000)]))
    return None


def naive_utc(v):
    if v.tzinfo is None:
        return v
    from datetime import timezone
    return v.astimezone(timezone.utc).replace(tzinfo=None)


def make_cell(kind, value, stub):
    from numbers_parser.cell import (BoolCell, DateCell, DurationCell, EmptyCell, NumberCell, RichTextCell, TextCell)
    from numbers_parser.constants import CellType
    if kind == "number":
        c = NumberCell(0, 0, value)
    elif kind == "currency":
        c = NumberCell(0, 0, value, cell_type=CellType.CURRENCY)
    elif kind == "text":
        c = TextCell(0, 0, value)
    elif kind == "date":
        c = DateCell(0, 0, value)
    elif kind == "bool":
        c = BoolCell(0, 0, value)
    elif kind == "duration":
        c = DurationCell(0, 0, value)
    elif kind == "empty":
        c = EmptyCell(0, 0)
    else:
        c = RichTextCell(0, 0, {"text": "r", "bullets": [], "hyperlinks": [], "bulleted": False, "bullet_chars": []})
    c._model = stub
    c._table_id = 1
    return c


def enc_case(kind, mask, salt, value, rec, stub):
    from numbers_parser.cell import Cell
    from vf import nsan
    from vf.ref import cellrec, d128
    case = {"part": "enc", "kind": kind, "mask": mask, "salt": salt, "value": repr(value)}
    try:
        c = make_cell(kind, value, stub)
        ids = {}
        for i, a in enumerate(OPT):
            if mask >> i & 1:
                # id 0 is a legal reference value (a field that is present and holds 0 is not an absent field)
                ids[a] = 0 if (salt >> (i % 12)) & 7 == 0 and a != "_rich_id" else 0x1000 * (i + 1) + salt
                setattr(c, a, ids[a])
        if kind == "rich" and "_rich_id" not in ids:
            ids["_rich_id"] = 0x6660 + salt % 16
            c._rich_id = ids["_rich_id"]
    except Exception as e:  # noqa: BLE001
        rec.build_failure(f"make_cell {kind}: {type(e).__name__}")
        return
    try:
        buf = c._to_buffer()
    except Exception as e:  # noqa: BLE001
        rec.violation("enc_raised", {"kind": kind, "exc": type(e).__name__}, {"mask": hex(mask), "msg": str(e)[:200]}, case=case)
        return
    nopt = bin(mask).count("1")

    def v(sub, fields, detail):
        fields = dict(fields)
        fields["kind"] = kind
        rec.violation(sub, fields, detail, case=case)

    r = nsan.check_record_against_cell(c, buf, v)
    if r is not None:
        # the kind is the kind of the cell, whatever references it carries (a number with a currency-format reference is a
        # number; a currency cell without one is a currency cell)
        if r["type"] != TYPE[kind]:
            v("enc_kind", {"want": kind, "type_byte": r["type"]}, {"mask": hex(mask), "ids": {a: ids[a] for a in ids}})
        # payload, by the reference decoder
        pb = PAYLOAD_BIT[kind]
        if pb and not r["flags"] & pb:
            v("enc_payload_missing", {}, {"flags": hex(r["flags"])})
        if kind in ("number", "currency") and "d128" in r:
            if not d128.same_number(d128.decode(r["d128"]), d128.exact_of_float(value)):
                v("enc_payload", {"payload": "d128"}, {"value": repr(value), "decoded": str(d128.decode(r["d128"]))})
        elif kind == "date" and "seconds" in r:
            if datetime(2001, 1, 1) + timedelta(seconds=r["seconds"]) != naive_utc(value):
                v("enc_payload", {"payload": "seconds", "aware": value.tzinfo is not None}, {"value": repr(value), "seconds": r["seconds"]})
        elif kind == "bool" and "double" in r:
            if (r["double"] > 0) != value:
                v("enc_payload", {"payload": "bool"}, {"value": value, "double": r["double"]})
        elif kind == "duration" and "double" in r:
            if timedelta(seconds=r["double"]) != value:
                v("enc_payload", {"payload": "duration"}, {"value": repr(value), "double": r["double"]})
        elif kind == "text" and "string_id" in r:
            if stub.strings.get(r["string_id"]) != value:
                v("enc_payload", {"payload": "string_id"}, {"value": value, "string_id": r["string_id"]})
        elif kind == "rich" and r.get("rich_id") != ids["_rich_id"]:
            v("enc_payload", {"payload": "rich_id"}, {"want": ids["_rich_id"], "got": r.get("rich_id")})
    # the library's own decoder on its own bytes
    try:
        c2 = Cell._from_storage(1, 0, 0, bytearray(buf), stub)
    except Exception as e:  # noqa: BLE001
        v("lib_roundtrip_raised", {"exc": type(e).__name__}, {"mask": hex(mask), "buf": bytes(buf).hex()})
        return
    if type(c2).__name__ != CLS[kind]:
        v("lib_roundtrip_kind", {"got": type(c2).__name__}, {"buf": bytes(buf).hex()})
    elif kind in ("number", "currency"):
        from numbers_parser.constants import CellType
        if (c2._type == CellType.CURRENCY) != (kind == "currency"):
            v("lib_roundtrip_kind", {"got": "currency" if c2._type == CellType.CURRENCY else "number"}, {"buf": bytes(buf).hex(), "mask": hex(mask)})
    for a in OPT:
        if getattr(c2, a) != ids.get(a):
            v("lib_roundtrip_id", {"field": a[1:]}, {"want": ids.get(a), "got": getattr(c2, a), "mask": hex(mask)})
            break
    if kind == "date" and value.tzinfo is not None:
        rec.count("enc_cases_with_aware_datetime")
        if c2.value != naive_utc(value):
            v("lib_roundtrip_value", {"payload": "date-aware"}, {"want": repr(naive_utc(value)), "got": repr(c2.value)})
    elif kind in ("number", "currency", "text", "date", "bool", "duration"):
        if c2.value != value or (isinstance(value, float) and repr(float(c2.value)) != repr(float(value))):
            v("lib_roundtrip_value", {"payload": kind}, {"want": repr(value), "got": repr(c2.value)})
    rec.case(("enc", kind, mask), nontrivial=nopt > 0)
    rec.count("enc_cases")
    if any(v_ == 0 for v_ in ids.values()):
        rec.count("enc_cases_with_a_zero_id")
    if isinstance(value, float) and len(repr(value).replace("-", "").replace(".", "").lstrip("0").split("e")[0]) >= 16:
        rec.count("enc_cases_with_16_17_digit_payload")
    rec.hist("enc_optional_fields", nopt)


def run_enc(spec, rec):
    kind = spec["kind"]
    rng = random.Random(f"C04-enc-{kind}-{spec['seed']}")
    stub = Stub()
    for mask in range(1 << 12):
        for _ in range(spec["payloads"]):
            enc_case(kind, mask, rng.randrange(0x1000), payload_value(kind, rng), rec, stub)
    rec.sample({"direction": "encode", "kind": kind, "mask": "0xa5b", "ids": {a: hex(0x1000 * (i + 1)) for i, a in enumerate(OPT) if 0xa5b >> i & 1}})


def dec_case(kind, flags_np, extra_payload_bits, salt, rec, stub, rng):
    """Build a record with the reference encoder and decode it with the library."""
    from numbers_parser.cell import Cell
    from vf.ref import cellrec, d128
    from decimal import Decimal
    flags = flags_np | PAYLOAD_BIT[kind] | extra_payload_bits
    fields = {}
    want = {}
    for i, (bit, size, name) in enumerate(cellrec.FIELDS):
        if not flags & bit:
            continue
        if name == "d128":
            c_ = rng.random()
            if c_ < .5:
                fields[name] = d128.encode(Decimal(rng.randrange(0, 10 ** 9)) / Decimal(100))
            else:
                # the full width of the format: up to 34 digits (as Numbers writes 2/3), incl. coefficients at and above 2**112
                nd = rng.choice([17, 18, 25, 33, 34, 34])
                coeff = rng.randrange(10 ** (nd - 1), 10 ** nd) if c_ < .8 else rng.randrange(1 << 112, 10 ** 34)
                # built from its parts: arithmetic on Decimal would round to the context's 28 digits
                fields[name] = d128.encode(Decimal((1 if rng.random() < .5 else 0, tuple(int(ch) for ch in str(coeff)), rng.randrange(-40, 6))))
                if coeff >= 1 << 112:
                    rec.count("dec_cases_with_coefficient_above_2_112")
                rec.count("dec_cases_with_long_coefficient")
        elif name in ("double", "seconds"):
            fields[name] = float(rng.randrange(0, 10 ** 8))
            if rng.random() < .5:
                # a record may hold any double: fractions of a second down to the microsecond a datetime / timedelta can name
                fields[name] += rng.choice([rng.randrange(10 ** 6), rng.randrange(1000) * 1000, 999999, 1, 500]) / 1e6
                rec.count("dec_cases_with_fractional_seconds")
        else:
            fields[name] = 0 if rng.random() < .1 else 0x1000 * (i + 1) + salt
            want[name] = fields[name]
    case = {"part": "dec", "kind": kind, "flags": flags, "salt": salt}
    buf = cellrec.encode(TYPE[kind], fields)
    try:
        c = Cell._from_storage(1, 0, 0, bytearray(buf), stub)
    except Exception as e:  # noqa: BLE001
        rec.violation("dec_raised", {"kind": kind, "exc": type(e).__name__}, {"flags": hex(flags), "msg": str(e)[:200]}, case=case)
        return
    if type(c).__name__ != CLS[kind]:
        rec.violation("dec_kind", {"kind": kind, "got": type(c).__name__}, {"flags": hex(flags)}, case=case)
    unint = flags & UNINTERPRETED
    for name in cellrec.LIB_IDS:
        got = getattr(c, "_" + name)
        if got != want.get(name):
            # which uninterpreted bits sit *below* this field: the mechanism discriminator
            below = unint & (cellrec.BIT[name] - 1)
            rec.violation("dec_id_slot", {"field": name, "uninterpreted_below": hex(below), "stored_zero": want.get(name) == 0},
                          {"kind": kind, "flags": hex(flags), "want": want.get(name), "got": got}, case=case)
            break
    nopt = bin(flags_np).count("1")
    rec.case(("dec", kind, flags), nontrivial=nopt > 0)
    rec.count("dec_cases")
    if any(v_ == 0 for v_ in want.values()):
        rec.count("dec_cases_with_a_zero_id")
    low = unint & 0x980
    if low:
        lowest = low & -low
        interpreted = sum(cellrec.BIT[n] for n in cellrec.LIB_IDS)
        if flags & interpreted & ~(lowest * 2 - 1):
            rec.count("dec_with_uninterpreted_before_interpreted")
    rec.hist("dec_optional_fields", nopt)


def run_dec(spec, rec):
    kind = spec["kind"]
    rng = random.Random(f"C04-dec-{kind}-{spec['seed']}-{spec.get('half', 0)}")
    stub = Stub()
    sets = []
    if spec["mode"] == "all":
        lo, hi = (0, 1 << 15) if spec["half"] == 0 else (1 << 15, 1 << 16)
        for m in range(lo, hi):
            sets.append(sum(NONPAYLOAD_BITS[i] for i in range(16) if m >> i & 1))
    else:
        for k in (0, 1, 2, 3, 13, 14, 15, 16):
            for comb in itertools.combinations(NONPAYLOAD_BITS, k):
                sets.append(sum(comb))
        for _ in range(3300):
            sets.append(sum(b for b in NONPAYLOAD_BITS if rng.random() < .5))
    required = PAYLOAD_BIT[kind]
    for j, f in enumerate(sets):
        dec_case(kind, f, 0, rng.randrange(0x1000), rec, stub, rng)
        if j % 16 == 0:
            # payload-bit variants: any extra combination of the 5 payload bits on top of the required one
            extra = rng.randrange(32) & ~required
            if kind in ("text", "rich") or not extra & 0x18:
                # a string/rich id on a non-text kind is still just a field to be read in place
                dec_case(kind, f, extra, rng.randrange(0x1000), rec, stub, rng)
            else:
                dec_case(kind, f, extra, rng.randrange(0x1000), rec, stub, rng)
    rec.sample({"direction": "decode", "kind": kind, "flags": hex(sets[len(sets) // 2] | required)})


def run_documents(spec, rec):
    """The records as a whole document stores them: cells of every writable kind (and empty cells) are given random subsets
    of the reference ids, the document is saved and reopened, and every id must be on the cell it was put on - the path
    from a cell to its record and back includes the row encoder, which decides what gets a record at all."""
    from numbers_parser import Document
    from vf.gen import docs, values as V
    rng = random.Random(f"C04-docs-{spec['seed']}-{spec['stream']}")
    ids_of = [a for a in OPT if a != "_rich_id"]
    vals = [1.5, "txt", datetime(2020, 1, 2, 3, 4, 5), True, timedelta(seconds=90), None, 0.0, ""]
    for j in range(spec["n"]):
        R, C = rng.randint(2, 30), len(vals)
        case = {"part": "document", "seed": spec["seed"], "stream": spec["stream"], "j": j}
        with warnings.catch_warnings():
            warnings.simplefilter("ignore")
            try:
                doc = Document(num_rows=R, num_cols=C, num_header_rows=0, num_header_cols=0)
                t = doc.sheets[0].tables[0]
                want = {}
                payload = {}
                for r in range(R):
                    for c in range(C):
                        v = vals[c]
                        if isinstance(v, str) and v and rng.random() < .7:
                            # the text payload is an id into the table's string list: equivalent-looking strings must keep distinct ids
                            v = rng.choice(V.EQUIVALENT) if rng.random() < .7 else rng.choice(["txt", "txt ", " txt", "TXT", "t\u0078t"])
                        elif isinstance(v, datetime) and rng.random() < .5:
                            v = v + timedelta(days=rng.randrange(-40000, 9000), microseconds=rng.choice([0, 1, 625, 999999, rng.randrange(10 ** 6)]))
                        elif isinstance(v, timedelta) and rng.random() < .5:
                            v = timedelta(seconds=rng.randrange(-10 ** 7, 10 ** 7), microseconds=rng.choice([0, 4000, 1, 999999]))
                        elif isinstance(v, float) and v and rng.random() < .5:
                            v = payload_value("number", rng)
                        if v is not None:
                            t.write(r, c, v)
                            payload[(r, c)] = v
                        cell = t.cell(r, c)
                        ids = {}
                        k = rng.random()
                        for a in ids_of:
                            if rng.random() < (0 if k < .2 else .15 if k < .6 else .5):
                                ids[a] = rng.choice([0, 1, rng.randrange(1, 60), rng.randrange(1, 60)])
                                setattr(cell, a, ids[a])
                        want[(r, c)] = (type(cell).__name__, ids)
            except Exception as e:  # noqa: BLE001
                rec.build_failure(f"document with ids: {type(e).__name__}")
                continue
            path = os.path.join(docs.scratch_dir(), f"c04-doc-{spec['stream']}-{j}.numbers")
            try:
                doc.save(path)
                t2 = Document(path).sheets[0].tables[0]
            except Exception as e:  # noqa: BLE001
                rec.violation("doc_roundtrip_raised", {"exc": type(e).__name__}, {"msg": str(e)[:200]}, case=case)
                continue
            finally:
                if os.path.exists(path):
                    os.remove(path)
            for (r, c), (kind, ids) in want.items():
                cell = t2.cell(r, c)
                if (r, c) in payload:
                    rec.count("doc_payloads_compared")
                    if not V.same_value(payload[(r, c)], cell.value):
                        rec.violation("doc_roundtrip_payload", {"kind": kind, "got_kind": type(cell).__name__},
                                      {"pos": [r, c], "want": repr(payload[(r, c)])[:80], "got": repr(cell.value)[:80]}, case=case)
                        continue
                rec.count("doc_cells_with_ids" if ids else "doc_cells_without_ids")
                if kind == "EmptyCell" and ids:
                    rec.count("doc_empty_cells_with_ids")
                for a in ids_of:
                    if getattr(cell, a) != ids.get(a):
                        rec.violation("doc_roundtrip_id", {"field": a[1:], "kind": kind, "stored_zero": ids.get(a) == 0, "lost": getattr(cell, a) is None},
                                      {"pos": [r, c], "want": ids.get(a), "got": getattr(cell, a), "ids": ids}, case=case)
                        break
        rec.case(("document", spec["stream"], j), nontrivial=True)
    rec.sample({"documents_with_ids": spec["n"], "stream": spec["stream"]})


def run_corpus(spec, rec):
    from vf import corpus
    from vf.ref import cellrec
    for p in spec["paths"]:
        doc, ws, exc = corpus.open_doc(p)  # record_decode contract fires on every stored record
        if doc is None:
            continue
        m = doc._model
        for s, t in corpus.all_tables(doc):
            try:
                asts = m.formula_ast(t._table_id)
            except Exception:  # noqa: BLE001
                asts = None
            for row in t.rows():
                for c in row:
                    buf = getattr(c, "_buffer", None)
                    if buf is None or len(buf) <= 12:
                        continue
                    rec.count("corpus_records")
                    try:
                        r = cellrec.decode(buf)
                    except cellrec.RecordError as e:
                        rec.count("corpus_records_ref_undecodable")
                        continue
                    rec.case(("corpus", r["type"], r["flags"]))
                    if r["end"] != len(buf):
                        rec.count("corpus_records_trailing_bytes")
                    if r["flags"] & UNINTERPRETED:
                        rec.count("corpus_records_with_uninterpreted_fields")
                    if asts is not None and c._formula_id is not None:
                        rec.count("corpus_formula_ids")
                        if c._formula_id not in asts:
                            rec.violation("corpus_formula_id_unresolved",
                                          {"uninterpreted_below": hex(r["flags"] & UNINTERPRETED & 0x1FF), "ref_resolves": r.get("formula_id") in asts},
                                          {"fixture": p.split("/")[-1], "table": t.name, "row": c.row, "col": c.col, "lib": c._formula_id, "ref": r.get("formula_id")},
                                          case={"part": "corpus", "path": p})
    rec.sample({"corpus": [p.split("/")[-1] for p in spec["paths"][:3]]})


def run_shard(spec, rec):
    if "cases" in spec:
        for c in spec["cases"]:
            replay(c, rec)
        return
    {"enc": run_enc, "dec": run_dec, "corpus": run_corpus, "documents": run_documents}[spec["part"]](spec, rec)


def replay(case, rec):
    stub = Stub()
    rng = random.Random("C04-replay")
    if case["part"] == "enc":
        kind = case["kind"]
        try:
            value = eval(case["value"], {"datetime": __import__("datetime"), "__builtins__": {}}) if kind not in ("empty", "rich") else None  # noqa: S307
        except Exception:  # noqa: BLE001
            value = payload_value(kind, rng)
        enc_case(kind, case["mask"], case["salt"], value, rec, stub)
    elif case["part"] == "dec":
        kind = case["kind"]
        flags = case["flags"]
        np_ = flags & sum(NONPAYLOAD_BITS)
        extra = flags & 0x1F & ~PAYLOAD_BIT[kind]
        dec_case(kind, np_, extra, case["salt"], rec, stub, rng)
    elif case["part"] == "document":
        # the j-th document of its stream, rebuilt by running the stream up to it
        run_documents({"seed": case["seed"], "stream": case["stream"], "n": case["j"] + 1}, rec)
    else:
        run_corpus({"paths": [case["path"]]}, rec)
