"""C16 - table geometry and labels survive save and reopen unchanged.

Metamorphic observation over cycles: G0 = geometry/label snapshot of an independent open of
the source; open again (query the geometry first, or not at all), save, reopen -> G1; again
-> G2 ...  G0 == G1 == G2 on row heights, column widths, table coordinates, numbers of
header rows/columns, sheet and table names, caption text and caption/name visibility.
Corpus: fixtures + template; API-built documents with any subset of the attributes set to
legal values, with and without borders on the affected rows/columns.
For every changed height/width the oracle measures the border allowance of that row/column
(half the widest top+bottom / left+right border) so that a drift is attributed to the
mechanism that produced it, not to the case that showed it.
"""
from __future__ import annotations

import os
import random
import shutil
import warnings

ID = "C16"
LEVEL = "exploration"
CONTRACTS = ()
REACH = {"_NumbersModel.row_height": "row_height", "_NumbersModel.col_width": "col_width", "_NumbersModel.recalculate_row_headers": "recalculate_row_headers",
         "_NumbersModel.recalculate_column_headers": "recalculate_column_headers", "_NumbersModel.caption_text": "caption_text",
         "_NumbersModel.table_coordinates": "table_coordinates", "_NumbersModel.num_header_rows": "num_header_rows"}
ASSUMPTIONS = ["height/width of the whole table are derived values and compared only as such",
               "documented ranges: heights/widths 1-500 points, header counts 0-5 (<= size), names incl. non-ASCII, captions incl. empty and multi-line",
               "the 'never queried' variant takes its before-values from an independent second open of the same source"]
ATTRS = ["row_heights", "col_widths", "coordinates", "name", "num_header_rows", "num_header_cols", "caption", "caption_enabled", "table_name_enabled"]


def rule(tier):
    return ("cases = (document, variant in {untouched, queried-first}, cycles 1.." + ("2" if tier == "quick" else "3") + "): every readable fixture + template, and API-built documents with a random subset of "
            "{row_height, col_width, header counts, sheet/table names, caption, caption/name visibility, coordinates} set, half of them with borders of width 0.5-10 on the affected rows/columns, "
            "on first and later tables/sheets. distinct = distinct (document, variant); non-trivial = at least one attribute differs from the template's defaults or the document is a fixture")


def floors(tier):
    return {"evaluations": 350 if tier == "quick" else 3000, "distinct": 350 if tier == "quick" else 3000,
            "counters": {"fixture_cases": 200, "partial_variants": 150, "api_documents": 150, "tables_compared": 800, "row_heights_compared": 10000, "col_widths_compared": 5000,
                         "documents_with_borders": 40, "untouched_variants": 90, "later_cycles": 300, "captions_set": 30, "heights_set": 30, "widths_set": 30, "merges_full_height_set": 8, "merges_full_width_set": 8, "api_on_source_documents": 60, "structural_edits_after_sizes_set": 20}}


def plan(tier, seed):
    from vf import corpus
    ok, excluded = corpus.readable_fixtures()
    specs = []
    cycles = 2 if tier == "quick" else 3
    for p in ok:
        for queried in (False, True, "partial"):
            specs.append({"part": "fixture", "path": p, "queried": queried, "cycles": cycles, "tier": tier, "seed": seed})
    n = 240 if tier == "quick" else 5000
    k = 16 if tier == "quick" else 48
    for i in range(k):
        specs.append({"part": "api", "n": n // k, "stream": i, "k": k, "cycles": cycles, "tier": tier, "seed": seed})
    specs.sort(key=lambda s: -os.path.getsize(s["path"]) if s.get("path") and os.path.isfile(s["path"]) else 0)
    return specs


# ---------------------------------------------------------------------------------------
def geo(doc):
    from vf import snapshot as S
    out = []
    with warnings.catch_warnings():
        warnings.simplefilter("ignore")
        for si in range(len(doc.sheets)):
            s = doc.sheets[si]
            tabs = []
            for ti in range(len(s.tables)):
                t = s.tables[ti]
                d = S.labels_snapshot(t)
                d.update(S.geometry_snapshot(t))
                d["num_rows"], d["num_cols"] = t.num_rows, t.num_cols
                tabs.append(d)
            out.append({"name": s.name, "tables": tabs})
    return out


def border_allowance(table):
    """Per row: (max top + max bottom)/2, per column: (max left + max right)/2 of the table's current borders."""
    rows, cols = [], []
    with warnings.catch_warnings():
        warnings.simplefilter("ignore")
        data = table.rows()
        for r in range(table.num_rows):
            tw = max([0.0] + [c.border.top.width for c in data[r] if c.border is not None and c.border.top is not None])
            bw = max([0.0] + [c.border.bottom.width for c in data[r] if c.border is not None and c.border.bottom is not None])
            rows.append((tw + bw) / 2)
        for c in range(table.num_cols):
            lw = max([0.0] + [data[r][c].border.left.width for r in range(table.num_rows) if data[r][c].border is not None and data[r][c].border.left is not None])
            rw = max([0.0] + [data[r][c].border.right.width for r in range(table.num_rows) if data[r][c].border is not None and data[r][c].border.right is not None])
            cols.append((lw + rw) / 2)
    return rows, cols


def compare(g0, g1, allowances, rec, case, fx, stage, exempt_tables=()):
    n = 0
    if [s["name"] for s in g0] != [s["name"] for s in g1]:
        rec.violation("sheet_names", {**fx, "stage": stage}, {"before": [s["name"] for s in g0], "after": [s["name"] for s in g1]}, case=case)
        return 1
    for si, (s0, s1) in enumerate(zip(g0, g1)):
        if len(s0["tables"]) != len(s1["tables"]):
            rec.violation("table_count", {**fx, "stage": stage}, {"sheet": s0["name"]}, case=case)
            return n + 1
        for ti, (t0, t1) in enumerate(zip(s0["tables"], s1["tables"])):
            if t0["name"] in exempt_tables or t1["name"] in exempt_tables:
                rec.count("exempt_pivot_tables")  # the library warns that it does not write pivot tables
                continue
            rec.count("tables_compared")
            for a in ATTRS:
                if a == "row_heights":
                    rec.count("row_heights_compared", len(t0[a]))
                elif a == "col_widths":
                    rec.count("col_widths_compared", len(t0[a]))
                if t0[a] == t1[a]:
                    continue
                n += 1
                fields = {**fx, "stage": stage, "attr": a}
                detail = {"sheet": s0["name"], "table": t0["name"], "before": repr(t0[a])[:300], "after": repr(t1[a])[:300]}
                if a in ("row_heights", "col_widths") and len(t0[a]) == len(t1[a]):
                    allow = allowances.get((si, ti), ([], []))[0 if a == "row_heights" else 1]
                    changed = [(i, x, y) for i, (x, y) in enumerate(zip(t0[a], t1[a])) if x != y]
                    mech = set()
                    for i, x, y in changed:
                        al = allow[i] if i < len(allow) else 0.0
                        if not isinstance(x, (int, float)) or not isinstance(y, (int, float)):
                            mech.add("raised")
                        elif al > 0 and abs((y - x) - al) <= 1.0:
                            mech.add("grew-by-border-allowance")
                        elif al == 0:
                            mech.add("changed-without-border")
                        else:
                            mech.add("changed-next-to-border")
                    fields["mech"] = "+".join(sorted(mech))
                    detail["changed"] = [(i, x, y, allow[i] if i < len(allow) else None) for i, x, y in changed[:6]]
                    detail["n_changed"] = len(changed)
                rec.violation("geometry_changed" if a in ("row_heights", "col_widths", "coordinates") else "label_changed", fields, detail, case=case)
    return n


def cycle_case(src, queried, cycles, rec, case, tag, fx):
    from numbers_parser import Document
    from vf.gen import docs
    d = docs.scratch_dir()
    with warnings.catch_warnings():
        warnings.simplefilter("ignore")
        g_prev = geo(Document(src))
    cur = src
    made = []
    try:
        for cycle in range(1, cycles + 1):
            with warnings.catch_warnings():
                warnings.simplefilter("ignore")
                doc = Document(cur)
            if queried == "partial":
                # only some rows / columns are queried before saving (deterministic subset)
                prng = random.Random(f"partial-{tag}-{cycle}")
                with warnings.catch_warnings():
                    warnings.simplefilter("ignore")
                    for si in range(len(doc.sheets)):
                        for ti in range(len(doc.sheets[si].tables)):
                            t = doc.sheets[si].tables[ti]
                            for r in range(t.num_rows):
                                if prng.random() < .34:
                                    t.row_height(r)
                            for c in range(t.num_cols):
                                if prng.random() < .34:
                                    t.col_width(c)
                rec.count("partial_variants")
            elif queried:
                geo(doc)
            out = os.path.join(d, f"c16-{tag}-{cycle}.numbers")
            made.append(out)
            try:
                docs.save(doc, out)
            except Exception as e:  # noqa: BLE001
                rec.violation("save_raised", {**fx, "exc": type(e).__name__}, {"msg": str(e)[:200]}, case=case)
                return
            try:
                with warnings.catch_warnings():
                    warnings.simplefilter("ignore")
                    doc2 = Document(out)
                    g_new = geo(doc2)
                    allow = {}
                    for si in range(len(doc2.sheets)):
                        for ti in range(len(doc2.sheets[si].tables)):
                            allow[(si, ti)] = border_allowance(doc2.sheets[si].tables[ti])
            except Exception as e:  # noqa: BLE001
                rec.violation("reopen_raised", {**fx, "exc": type(e).__name__}, {"msg": str(e)[:200]}, case=case)
                return
            if cycle > 1:
                rec.count("later_cycles")
            compare(g_prev, g_new, allow, rec, case, fx, "first-cycle" if cycle == 1 else "later-cycle")
            g_prev = g_new
            cur = out
    finally:
        for p in made:
            if os.path.isdir(p):
                shutil.rmtree(p, ignore_errors=True)
            elif os.path.exists(p):
                os.remove(p)
    if not queried:
        rec.count("untouched_variants")


def variant_name(q):
    return "partial" if q == "partial" else "queried" if q else "untouched"


def run_fixture(spec, rec):
    case = {"part": "fixture", "path": spec["path"], "queried": spec["queried"], "cycles": spec["cycles"]}
    fx = {"origin": "fixture", "variant": variant_name(spec["queried"])}
    cycle_case(spec["path"], spec["queried"], spec["cycles"], rec, case, "fx", fx)
    rec.count("fixture_cases")
    rec.case((os.path.basename(spec["path"]), spec["queried"]))
    rec.sample({"fixture": os.path.basename(spec["path"]), "queried_first": spec["queried"], "cycles": spec["cycles"]})


def fixture_tables(path):
    """[((sheet, table), rows, cols)] of a source document (at most 3 tables, each at least 2x2)."""
    from numbers_parser import Document
    with warnings.catch_warnings():
        warnings.simplefilter("ignore")
        doc = Document(path)
        out = []
        for si in range(len(doc.sheets)):
            for ti in range(len(doc.sheets[si].tables)):
                t = doc.sheets[si].tables[ti]
                if t.num_rows >= 2 and t.num_cols >= 2 and t.num_rows * t.num_cols <= 4000:
                    out.append(((si, ti), t.num_rows, t.num_cols))
    return out[:3]


def api_recipe(rng, fixture=None):
    """A document built through the API - or a source document opened from a file - with a random subset of
    the geometry/label attributes set through the API."""
    ops = []
    created_headers = {}
    R, C = (2, 2) if rng.random() < .2 else (rng.randint(2, 8), rng.randint(2, 6))
    init = {"num_rows": R, "num_cols": C}
    if rng.random() < .4:
        init["sheet_name"] = rng.choice(["Feuille é", "数表", "Sheet A", "  Sheet with blanks  ", " lead", "trail "])
    if rng.random() < .4:
        init["table_name"] = rng.choice(["Tableau ü", "表", "My Table", "  My Table  ", "Table\u00a0nbsp "])
    tables = [((0, 0), R, C)]
    if fixture is not None:
        init = {"fixture": fixture}
        tables = fixture_tables(fixture)
    if rng.random() < .4 and fixture is None:
        r2, c2 = rng.randint(2, 10), rng.randint(2, 7)
        op = {"op": "add_table", "sheet": 0, "table_name": "Second", "num_rows": r2, "num_cols": c2}
        if rng.random() < .6:
            op["x"], op["y"] = float(rng.randrange(0, 600)), float(rng.randrange(0, 900))
        if rng.random() < .5:
            # header counts given when the table is created (they are the new table's, whatever the tables before it look like)
            op["num_header_rows"], op["num_header_cols"] = rng.randint(0, min(5, r2)), rng.randint(0, min(5, c2))
            created_headers[(0, 1)] = (op["num_header_rows"], op["num_header_cols"])
        ops.append(op)
        tables.append(((0, 1), r2, c2))
    if rng.random() < .3 and fixture is None:
        r3, c3 = rng.randint(2, 6), rng.randint(2, 5)
        ops.append({"op": "add_sheet", "sheet_name": "Другой", "table_name": "T3", "num_rows": r3, "num_cols": c3})
        tables.append(((1, 0), r3, c3))
    setflags = set()
    lite = fixture is not None  # a source document keeps its own cells, merges, borders and header counts
    borders = rng.random() < .5 and not lite
    for tb, R_, C_ in tables:
        tbl = list(tb)
        first_op = len(ops)
        if rng.random() < .6:
            for r in rng.sample(range(R_), rng.randint(1, min(3, R_))):
                ops.append({"op": "row_height", "tbl": tbl, "r": r, "h": rng.choice([1, 10, 37, 100, 250, 500, rng.randint(1, 500)])})
                setflags.add("heights")
        if rng.random() < .6:
            for c in rng.sample(range(C_), rng.randint(1, min(3, C_))):
                ops.append({"op": "col_width", "tbl": tbl, "c": c, "w": rng.choice([1, 20, 98, 300, 500, rng.randint(1, 500)])})
                setflags.add("widths")
        if rng.random() < .5 and not lite:
            ops.append({"op": "header_rows", "tbl": tbl, "n": rng.randint(0, min(5, R_))})
        if rng.random() < .5 and not lite:
            ops.append({"op": "header_cols", "tbl": tbl, "n": rng.randint(0, min(5, C_))})
        if rng.random() < .5:
            ops.append({"op": "caption", "tbl": tbl, "text": rng.choice(["Caption", "", "Deux\nlignes", "キャプション", "x" * 200])})
            setflags.add("captions")
        if rng.random() < .5:
            ops.append({"op": "caption_enabled", "tbl": tbl, "v": rng.random() < .5})
        if rng.random() < .5:
            ops.append({"op": "name_enabled", "tbl": tbl, "v": rng.random() < .5})
        if rng.random() < .3:
            ops.append({"op": "rename_table", "tbl": tbl, "name": rng.choice(["Renommé", "T " + str(rng.randrange(100)), "  indented " + str(rng.randrange(100)), "trailing %d   " % rng.randrange(100),
                                                                              "\ttab " + str(rng.randrange(100)), "inner   blanks " + str(rng.randrange(100))])})
        # the setters are independent of each other: any order (visibility before or after the text, name before or after sizes)
        mine = ops[first_op:]
        rng.shuffle(mine)
        ops[first_op:] = mine
        if not lite and rng.random() < .3:
            # the table grows or shrinks at its far end afterwards: the sizes of the rows and columns that stay are theirs
            for _ in range(rng.randint(1, 2)):
                which = rng.choice(["add_column", "add_row", "delete_column", "delete_row"])
                if which == "delete_column" and C_ <= 2 or which == "delete_row" and R_ <= 2:
                    continue
                if which.startswith("delete") and any(o["op"] in ("row_height", "col_width") and o["tbl"] == tbl and o.get("r", o.get("c")) == (R_ - 1 if "row" in which else C_ - 1) for o in ops[first_op:]):
                    continue  # the row / column whose size was set is not the one removed
                if which.startswith("delete") and any(o["op"] in ("header_rows", "header_cols") and o["tbl"] == tbl for o in ops[first_op:]):
                    continue
                if which == "delete_row" and R_ >= 3 and rng.random() < .6 and not borders:
                    # the row that becomes the last one carries a height of its own (set and not yet saved)
                    ops.append({"op": "row_height", "tbl": tbl, "r": R_ - 2, "h": rng.choice([50, 77, 240, rng.randint(30, 400)])})
                elif which == "delete_column" and C_ >= 3 and rng.random() < .6 and not borders:
                    ops.append({"op": "col_width", "tbl": tbl, "c": C_ - 2, "w": rng.choice([50, 77, 240, rng.randint(30, 400)])})
                ops.append({"op": which, "tbl": tbl})
                if which == "add_column":
                    C_ += 1
                elif which == "add_row":
                    R_ += 1
                elif which == "delete_column":
                    C_ -= 1
                else:
                    R_ -= 1
                setflags.add("structural_edits_after_sizes")
        if not lite and not borders and rng.random() < .3:
            # a size set on the row (column) next to the last, then the last one removed - and sometimes one added back: the
            # row that has become the last keeps the size it was given
            hdr = {o["op"]: o["n"] for o in ops[first_op:] if o["op"] in ("header_rows", "header_cols") and o["tbl"] == tbl}
            sized_last_row = any(o["op"] == "row_height" and o["tbl"] == tbl and o["r"] == R_ - 1 for o in ops[first_op:])
            sized_last_col = any(o["op"] == "col_width" and o["tbl"] == tbl and o["c"] == C_ - 1 for o in ops[first_op:])
            if rng.random() < .5 and R_ >= 3 and hdr.get("header_rows", 0) <= R_ - 2 and not sized_last_row:
                ops.append({"op": "row_height", "tbl": tbl, "r": R_ - 2, "h": rng.choice([50, 77, 240, rng.randint(30, 400)])})
                ops.append({"op": "delete_row", "tbl": tbl})
                R_ -= 1
                if rng.random() < .5:
                    ops.append({"op": "add_row", "tbl": tbl})
                    R_ += 1
                setflags.add("structural_edits_after_sizes")
            elif C_ >= 3 and hdr.get("header_cols", 0) <= C_ - 2 and not sized_last_col:
                ops.append({"op": "col_width", "tbl": tbl, "c": C_ - 2, "w": rng.choice([50, 77, 240, rng.randint(30, 400)])})
                ops.append({"op": "delete_column", "tbl": tbl})
                C_ -= 1
                if rng.random() < .5:
                    ops.append({"op": "add_column", "tbl": tbl})
                    C_ += 1
                setflags.add("structural_edits_after_sizes")
        if borders:
            for _ in range(rng.randint(1, 4)):
                r, c = rng.randrange(R_), rng.randrange(C_)
                side = rng.choice(["top", "right", "bottom", "left"])
                ops.append({"op": "border", "tbl": tbl, "r": r, "c": c, "side": side, "width": rng.choice([0.5, 1.0, 2.0, 3.5, 8.0, 10.0]),
                            "color": [rng.randrange(256) for _ in range(3)], "pattern": rng.choice(["solid", "dashes", "dots"]), "length": 1})
        if rng.random() < .4 and not lite:
            ops.append({"op": "write", "tbl": tbl, "r": rng.randrange(R_), "c": rng.randrange(C_), "v": {"t": "s", "v": "text"}})
        if rng.random() < .35 and not lite:
            # a merged region: geometry is a property of rows and columns, not of the cells stored in them, so a
            # column (row) that consists of merged placeholders only keeps its width (height) like any other
            from vf.ref import a1
            kind = rng.choice(["full-height", "full-width", "inner"])
            if kind == "full-height":
                c0 = rng.randrange(C_ - 1)
                rect = (0, c0, R_ - 1, rng.randint(c0 + 1, C_ - 1))
            elif kind == "full-width":
                r0 = rng.randrange(R_ - 1)
                rect = (r0, 0, rng.randint(r0 + 1, R_ - 1), C_ - 1)
            else:
                r0, c0 = rng.randrange(R_ - 1), rng.randrange(C_ - 1)
                rect = (r0, c0, rng.randint(r0 + 1, R_ - 1), rng.randint(c0, C_ - 1))
            ops.append({"op": "merge", "tbl": tbl, "range": a1.cell_name(rect[0], rect[1]) + ":" + a1.cell_name(rect[2], rect[3])})
            setflags.add("merges_" + kind.replace("-", "_"))
    return {"init": init, "ops": ops}, borders, setflags


def api_case(case, rec):
    from vf.gen import docs
    rng = random.Random(case["rseed"])
    recipe, borders, setflags = api_recipe(rng, case.get("fixture"))
    d = docs.scratch_dir()
    src = os.path.join(d, f"c16-src-{case['rseed']}.numbers")
    try:
        doc, _ = docs.build(recipe)
        # the values set through the API are the 'before' picture: observe them on the open document
        with warnings.catch_warnings():
            warnings.simplefilter("ignore")
            g_set = geo(doc)
        # what was asked for must be what the open document reports (last setter wins)
        asked = {}
        for op in recipe["ops"]:
            k = op["op"]
            if k in ("row_height", "col_width") and not borders:
                asked[(tuple(op["tbl"]), k, op.get("r", op.get("c")))] = op.get("h", op.get("w"))
            elif k in ("header_rows", "header_cols"):
                asked[(tuple(op["tbl"]), k)] = op["n"]
            elif k == "add_table" and "num_header_rows" in op:
                asked.setdefault(((0, 1), "header_rows"), op["num_header_rows"])
                asked.setdefault(((0, 1), "header_cols"), op["num_header_cols"])
            elif k == "caption":
                asked[(tuple(op["tbl"]), k)] = op["text"]
            elif k == "name_enabled":
                asked[(tuple(op["tbl"]), k)] = op["v"]
            elif k == "caption_enabled":
                # a table of a source document that never had a caption holds a stand-in: the library reports its caption as
                # not visible until a text is set (then, in whichever order the two were set, the visibility asked for holds)
                if not case.get("fixture") or any(o2["op"] == "caption" and o2["tbl"] == op["tbl"] for o2 in recipe["ops"]):
                    asked[(tuple(op["tbl"]), k)] = op["v"]
            elif k == "rename_table":
                asked[(tuple(op["tbl"]), "name")] = op["name"]
        # the names given when the document was created
        init = recipe["init"]
        if "sheet_name" in init and g_set[0]["name"] != init["sheet_name"]:
            rec.violation("api_value_not_reported", {"attr": "sheet_name"}, {"asked": repr(init["sheet_name"]), "reported": repr(g_set[0]["name"])}, case=case)
        if "table_name" in init and not any(o["op"] == "rename_table" and o["tbl"] == [0, 0] for o in recipe["ops"]):
            asked[((0, 0), "name")] = init["table_name"]
        for key, want in asked.items():
            tb = g_set[key[0][0]]["tables"][key[0][1]]
            got = {"row_height": lambda: tb["row_heights"][key[2]], "col_width": lambda: tb["col_widths"][key[2]], "header_rows": lambda: tb["num_header_rows"],
                   "header_cols": lambda: tb["num_header_cols"], "caption": lambda: tb["caption"], "name_enabled": lambda: tb["table_name_enabled"], "caption_enabled": lambda: tb["caption_enabled"],
                   "name": lambda: tb["name"]}[key[1]]()
            rec.count("api_values_checked")
            if got != want:
                rec.violation("api_value_not_reported", {"attr": key[1]}, {"asked": repr(want)[:100], "reported": repr(got)[:100]}, case=case)
    except Exception as e:  # noqa: BLE001 - what the setters accept on this document is not C16's business
        rec.build_failure(f"api document: {type(e).__name__}: {str(e)[:60]}")
        return
    try:
        import re as _re
        pivots = set()
        for _cat, msg in docs.save(doc, src):
            m = _re.match(r"^Not modifying pivot table '(?P<table>.*)'$", msg)
            if m:
                pivots.add(m["table"])
    except Exception as e:  # noqa: BLE001 - but a document whose geometry and labels were set through the API must be savable
        rec.violation("save_raised", {"origin": "api-on-source-document" if case.get("fixture") else "api", "exc": type(e).__name__, "variant": "first-save"},
                      {"msg": str(e)[:200], "fixture": os.path.basename(case.get("fixture") or "")}, case=case)
        return
    try:
        from numbers_parser import Document
        fx = {"origin": "api-on-source-document" if case.get("fixture") else "api", "variant": variant_name(case["queried"]), "has_border": borders}
        # set-through-the-API vs first reopen
        with warnings.catch_warnings():
            warnings.simplefilter("ignore")
            doc1 = Document(src)
            g1 = geo(doc1)
            allow = {(si, ti): border_allowance(doc1.sheets[si].tables[ti]) for si in range(len(doc1.sheets)) for ti in range(len(doc1.sheets[si].tables))}
        # a pivot table is not written at all (the library says so in a warning that names it): what was set on it is
        # exempt, under the name it had before or after the edits
        renamed_from = set()
        if pivots:
            with warnings.catch_warnings():
                warnings.simplefilter("ignore")
                d0 = Document(case["fixture"]) if case.get("fixture") else None
            if d0 is not None:
                for si in range(len(d0.sheets)):
                    for ti in range(len(d0.sheets[si].tables)):
                        if g_set[si]["tables"][ti]["name"] in pivots or d0.sheets[si].tables[ti].name in pivots:
                            renamed_from |= {g_set[si]["tables"][ti]["name"], d0.sheets[si].tables[ti].name}
        compare(g_set, g1, allow, rec, case, fx, "set-vs-reopened", exempt_tables=pivots | renamed_from)
        cycle_case(src, case["queried"], case["cycles"], rec, case, f"a{case['rseed']}", fx)
    finally:
        if os.path.exists(src):
            os.remove(src)
    rec.count("api_documents")
    if case.get("fixture"):
        rec.count("api_on_source_documents")
    if borders:
        rec.count("documents_with_borders")
    for f in setflags:
        rec.count(f + "_set")
    rec.case(("api", case["rseed"], case["queried"]), nontrivial=bool(recipe["ops"]))


def run_api(spec, rec):
    rng = random.Random(f"C16-api-{spec['seed']}-{spec['stream']}")
    from vf import corpus
    small = sorted(p for p in corpus.readable_fixtures()[0] if os.path.isfile(p) and os.path.getsize(p) < 400_000)
    # every small source document gets its turn (round robin over the streams), the rest of the cases are API-built or a random one
    k_streams = spec.get("k", 16)
    mine = small[spec["stream"]::k_streams]
    for i in range(spec["n"]):
        case = {"part": "api", "rseed": rng.randrange(1 << 40), "queried": rng.choice([False, True, "partial"]), "cycles": spec["cycles"]}
        if i < len(mine):
            case["fixture"] = mine[i]
        elif rng.random() < .2 and small:
            case["fixture"] = rng.choice(small)
        api_case(case, rec)
        if i == 0:
            rec.sample({"api_document": case})


def run_shard(spec, rec):
    if "cases" in spec:
        for c in spec["cases"]:
            replay(c, rec)
        return
    {"fixture": run_fixture, "api": run_api}[spec["part"]](spec, rec)


def replay(case, rec):
    if case.get("part") == "fixture":
        fx = {"origin": "fixture", "variant": variant_name(case["queried"])}
        cycle_case(case["path"], case["queried"], case["cycles"], rec, case, "replay", fx)
        rec.case(("replay", case["path"]))
    else:
        api_case(case, rec)
