"""C12 - merged regions are reported consistently, immediately and after reload.

Model (ref: a set of pairwise disjoint rectangles, shifted by row/column insertions and
deletions that lie wholly before them) against two views of the real table - the open
document right after each operation and the saved file after reopening - and the two views
against each other.  Per rectangle: the anchor reports is_merged with the rectangle's size,
every other cell is a value-less MergedCell reporting that rectangle, cells outside are
untouched (values, not merged), merge_ranges is exactly the set of rectangles.
Where the statement leaves the outcome open (an insert/delete *inside* a rectangle) only
self-consistency and agreement of the two views are demanded.
"""
from __future__ import annotations

import itertools
import os
import random
import warnings

ID = "C12"
LEVEL = "exploration"
CONTRACTS = ()
REACH = {"Table.merge_cells": "Table.merge_cells", "Table.merge_ranges": "Table.merge_ranges", "_NumbersModel.recalculate_merged_cells": "recalculate_merged_cells",
         "_NumbersModel.calculate_merge_cell_ranges": "calculate_merge_cell_ranges", "Cell._set_merge": "Cell._set_merge", "Cell._merged_cell": "Cell._merged_cell"}
ASSUMPTIONS = ["overlapping merges are not generated; values are not written into placeholders",
               "an insert/delete inside a merged rectangle: the statement does not say whether the region grows, shrinks or splits - only self-consistency and open == reloaded are demanded",
               "an insert at index i shifts rectangles starting at >= i; a delete of [i, i+n) shifts rectangles starting at >= i+n"]


def rule(tier):
    return ("exhaustive: every rectangle of area > 1 in a 4x4 table (84) and every disjoint pair in a 3x4 table, given singly and as a list, each observed open and reloaded; "
            "random: histories {merge 1-4 disjoint rectangles (1xN, Nx1, NxM, touching, at the edges, single/list argument), writes to anchors and outside cells, "
            "row/column inserts and deletes before / inside / after the rectangles, saves at random points} on tables of 3-9 x 3-8 cells and on tables crossing 256 rows. "
            "distinct = distinct (shape, rectangle set, operation kinds with their relation to the rectangles); non-trivial = at least one rectangle of area > 1")


def floors(tier):
    return {"evaluations": 550 if tier == "quick" else 8000, "distinct": 550 if tier == "quick" else 6000,
            "counters": {"open_views_judged": 900, "reloaded_views_judged": 600, "rectangles_merged": 1200, "list_arguments": 100, "tables_added_beside_merged": 300, "source_documents_with_added_merges": 15, "regions_beyond_255_rows_or_columns": 10,
                         "structural_before": 50, "structural_after": 50, "structural_inside": 30, "multi_tile_tables": 5, "placeholders_checked": 3000}}


def plan(tier, seed):
    specs = []
    rects = [(r0, c0, r1, c1) for r0 in range(4) for c0 in range(4) for r1 in range(r0, 4) for c1 in range(c0, 4) if (r0, c0) != (r1, c1)]
    k = 6
    for i in range(k):
        specs.append({"part": "exh1", "rects": rects[i::k], "tier": tier, "seed": seed})
    r34 = [(r0, c0, r1, c1) for r0 in range(3) for c0 in range(4) for r1 in range(r0, 3) for c1 in range(c0, 4) if (r0, c0) != (r1, c1)]
    pairs = [(a, b) for a, b in itertools.combinations(r34, 2) if disjoint(a, b)]
    if tier == "quick":
        pairs = pairs[::3]
    k = 10
    for i in range(k):
        specs.append({"part": "exh2", "pairs": pairs[i::k], "tier": tier, "seed": seed})
    n = 400 if tier == "quick" else 8000
    kk = 16 if tier == "quick" else 48
    for i in range(kk):
        specs.append({"part": "random", "n": n // kk, "stream": i, "tier": tier, "seed": seed})
    specs.append({"part": "sources", "n": 24 if tier == "quick" else 400, "tier": tier, "seed": seed})
    # regions wider than 255 columns / taller than 255 rows (their sizes need the second byte of the stored field)
    for shape, rects in (([3, 300], [[1, 2, 2, 261]]), ([2, 300], [[0, 0, 1, 299]]), ([3, 280], [[0, 10, 0, 270], [1, 0, 2, 256]]), ([300, 3], [[2, 1, 290, 2]]),
                         ([520, 2], [[1, 0, 517, 1]]), ([2, 258], [[0, 1, 1, 256]]),
                         # and regions that begin beyond column / row 255
                         ([3, 300], [[1, 257, 2, 299]]), ([2, 300], [[0, 256, 1, 257], [0, 290, 0, 299]]), ([300, 3], [[256, 0, 257, 1], [290, 1, 299, 2]]), ([4, 270], [[0, 255, 1, 256]])):
        specs.append({"part": "large", "shape": shape, "rects": rects, "tier": tier, "seed": seed})
    return specs


def disjoint(a, b):
    return a[2] < b[0] or b[2] < a[0] or a[3] < b[1] or b[3] < a[1]


def rname(rect):
    from vf.ref import a1
    return a1.cell_name(rect[0], rect[1]) + ":" + a1.cell_name(rect[2], rect[3])


# ---------------------------------------------------------------------------------------
def view(t):
    """What the table reports about merges: {(r,c): descriptor}, merge_ranges."""
    from numbers_parser import MergedCell
    out = {}
    for r, row in enumerate(t.rows()):
        for c, cell in enumerate(row):
            if isinstance(cell, MergedCell):
                out[(r, c)] = ("ref", tuple(cell.rect) if cell.rect is not None else None, cell.value, bool(cell.is_merged), cell.merge_range)
            elif cell.is_merged:
                out[(r, c)] = ("anchor", tuple(cell.size))
            elif getattr(cell, "size", (1, 1)) not in ((1, 1), None):
                out[(r, c)] = ("odd-size", tuple(cell.size))
    try:
        mr = list(t.merge_ranges)
    except Exception as e:  # noqa: BLE001
        mr = ["raised:" + type(e).__name__]
    return out, mr


def expect(rects):
    out = {}
    for (r0, c0, r1, c1) in rects:
        for r in range(r0, r1 + 1):
            for c in range(c0, c1 + 1):
                out[(r, c)] = ("ref", (r0, c0, r1, c1), None, False, rname((r0, c0, r1, c1)))
        out[(r0, c0)] = ("anchor", (r1 - r0 + 1, c1 - c0 + 1))
    return out, sorted(rname(x) for x in rects)


def judge_view(t, rects, values, rec, case, fields, label):
    """Full oracle (rectangles known).  values: expected {(r,c): value} for non-placeholder cells."""
    got, mr = view(t)
    want, wmr = expect(rects)
    rec.count("open_views_judged" if label == "open" else "reloaded_views_judged")
    ok = True
    f = dict(fields)
    f["view"] = label
    if sorted(mr) != wmr:
        rec.violation("merge_ranges", f, {"got": mr, "want": wmr}, case=case)
        ok = False
    for pos in sorted(set(got) | set(want)):
        g, w = got.get(pos), want.get(pos)
        if w is not None and w[0] == "ref":
            rec.count("placeholders_checked")
        if g != w:
            kind = "placeholder" if (w and w[0] == "ref") else "anchor" if (w and w[0] == "anchor") else "outside"
            rec.violation("cell_merge_state", {**f, "cell": kind}, {"pos": list(pos), "got": repr(g), "want": repr(w), "rects": [list(x) for x in rects]}, case=case)
            ok = False
            break
    # cells outside / anchors keep their values
    data = t.rows(values_only=True)
    for (r, c), v in values.items():
        if r < len(data) and c < len(data[r]) and want.get((r, c), ("x",))[0] != "ref":
            if data[r][c] != v:
                rec.violation("value_outside_touched", f, {"pos": [r, c], "got": repr(data[r][c]), "want": repr(v)}, case=case)
                ok = False
                break
    return ok


def self_consistent(t, rec, case, fields, label):
    """Weak oracle for the unspecified cases."""
    from vf.ref import a1
    got, mr = view(t)
    f = dict(fields)
    f["view"] = label
    rects = []
    for text in mr:
        if ":" not in text:
            rec.violation("self_consistency", {**f, "what": "range-not-a-rectangle"}, {"range": text}, case=case)
            return None
        a, b = text.split(":")
        pa, pb = a1.parse_cell(a), a1.parse_cell(b)
        if pa is None or pb is None or pa[0] > pb[0] or pa[1] > pb[1] or pb[0] >= t.num_rows or pb[1] >= t.num_cols:
            rec.violation("self_consistency", {**f, "what": "range-outside-table"}, {"range": text, "shape": [t.num_rows, t.num_cols]}, case=case)
            return None
        rects.append((pa[0], pa[1], pb[0], pb[1]))
    for a, b in itertools.combinations(rects, 2):
        if not disjoint(a, b):
            rec.violation("self_consistency", {**f, "what": "ranges-overlap"}, {"ranges": mr}, case=case)
            return None
    want, _ = expect(rects)
    for pos in sorted(set(got) | set(want)):
        if got.get(pos) != want.get(pos):
            rec.violation("self_consistency", {**f, "what": "cells-vs-ranges"}, {"pos": list(pos), "got": repr(got.get(pos)), "want": repr(want.get(pos)), "ranges": mr}, case=case)
            return None
    return rects


def fill(t, R, C):
    vals = {}
    for r in range(R):
        for c in range(C):
            v = f"{r},{c}"
            t.write(r, c, v)
            vals[(r, c)] = v
    return vals


def reopen(doc, tag):
    from numbers_parser import Document
    from vf.gen import docs
    path = os.path.join(docs.scratch_dir(), f"c12-{tag}.numbers")
    try:
        docs.save(doc, path)
        with warnings.catch_warnings():
            warnings.simplefilter("ignore")
            return Document(path)
    finally:
        if os.path.exists(path):
            os.remove(path)


def simple_case(R, C, rects, as_list, rec, case):
    from numbers_parser import Document
    with warnings.catch_warnings():
        warnings.simplefilter("ignore")
        doc = Document(num_rows=R, num_cols=C, num_header_rows=0, num_header_cols=0)
        t = doc.sheets[0].tables[0]
        vals = fill(t, R, C)
        arg = [rname(x) for x in rects]
        try:
            if as_list:
                t.merge_cells(arg)
                rec.count("list_arguments")
            else:
                for a in arg:
                    t.merge_cells(a)
        except Exception as e:  # noqa: BLE001
            rec.violation("merge_raised", {"exc": type(e).__name__}, {"arg": arg, "msg": str(e)[:200]}, case=case)
            return
    rec.count("rectangles_merged", len(rects))
    fields = {"structural": "none"}
    judge_view(t, rects, vals, rec, case, fields, "open")
    try:
        doc2 = reopen(doc, "s")
    except Exception as e:  # noqa: BLE001
        rec.violation("save_or_reopen_raised", {"exc": type(e).__name__, **fields}, {"msg": str(e)[:200]}, case=case)
        return
    judge_view(doc2.sheets[0].tables[0], rects, vals, rec, case, fields, "reloaded")
    # the open document after the save
    judge_view(t, rects, vals, rec, case, fields, "open-after-save")
    # "cells outside are untouched ... the list of merge ranges is exactly the set of merged rectangles": a table added
    # next to the merged one (open and reloaded document alike) has no merged region at all
    for label, d in (("open", doc), ("reloaded", doc2)):
        try:
            with warnings.catch_warnings():
                warnings.simplefilter("ignore")
                nt = d.sheets[0].add_table("Beside", num_rows=R, num_cols=C)
                mr = list(nt.merge_ranges)
                kinds = sorted({type(c).__name__ for row in nt.rows() for c in row})
        except Exception as e:  # noqa: BLE001
            rec.violation("added_table_raised", {"exc": type(e).__name__, "view": label}, {"msg": str(e)[:200]}, case=case)
            continue
        rec.count("tables_added_beside_merged")
        if mr or kinds != ["EmptyCell"]:
            rec.violation("merge_ranges", {**fields, "view": label, "table": "added-beside"}, {"got": mr, "cell_kinds": kinds, "want": []}, case=case)


def run_exh1(spec, rec):
    for i, rect in enumerate(spec["rects"]):
        case = {"part": "simple", "shape": [4, 4], "rects": [list(rect)], "as_list": i % 2 == 1}
        simple_case(4, 4, [tuple(rect)], case["as_list"], rec, case)
        rec.case(("exh1", tuple(rect), case["as_list"]))
    rec.sample({"shape": [4, 4], "rectangles": [rname(tuple(r)) for r in spec["rects"][:5]]})


def run_exh2(spec, rec):
    for i, (a, b) in enumerate(spec["pairs"]):
        case = {"part": "simple", "shape": [3, 4], "rects": [list(a), list(b)], "as_list": i % 2 == 0}
        simple_case(3, 4, [tuple(a), tuple(b)], case["as_list"], rec, case)
        rec.case(("exh2", tuple(a), tuple(b), case["as_list"]))
    rec.sample({"shape": [3, 4], "pairs": [[rname(tuple(a)), rname(tuple(b))] for a, b in spec["pairs"][:3]]})


# ---------------------------------------------------------------------------------------
def relation(axis, index, n, rects, delete):
    """How a structural op at `index` (n rows/cols) relates to the rectangles:
    'before' (some rectangle starts at or after the affected band and none is cut),
    'inside' (cuts a rectangle), 'after' (all rectangles end before it)."""
    lo, hi = (0, 2) if axis == "row" else (1, 3)
    rel = "after"
    for rc in rects:
        s, e = rc[lo], rc[hi]
        if delete:
            if index <= e and index + n - 1 >= s:
                return "inside"
            if index + n - 1 < s:
                rel = "before"
        else:
            if s < index <= e:
                return "inside"
            if index <= s:
                rel = "before"
    return rel


def shift(axis, index, n, rects, delete):
    lo, hi = (0, 2) if axis == "row" else (1, 3)
    out = []
    for rc in rects:
        rc = list(rc)
        if delete:
            if rc[lo] >= index + n:
                rc[lo] -= n
                rc[hi] -= n
        elif rc[lo] >= index:
            rc[lo] += n
            rc[hi] += n
        out.append(tuple(rc))
    return out


def shift_values(axis, index, n, vals, delete):
    out = {}
    for (r, c), v in vals.items():
        p = r if axis == "row" else c
        if delete:
            if index <= p < index + n:
                continue
            if p >= index + n:
                p -= n
        elif p >= index:
            p += n
        out[(p, c) if axis == "row" else (r, p)] = v
    return out


def random_case(case, rec):
    from numbers_parser import Document
    rng = random.Random(case["rseed"])
    big = rng.random() < .06
    if big:
        R, C = rng.choice([255, 256, 257, 300]), rng.randint(2, 4)
        rec.count("multi_tile_tables")
    else:
        R, C = rng.randint(3, 9), rng.randint(3, 8)
    with warnings.catch_warnings():
        warnings.simplefilter("ignore")
        doc = Document(num_rows=R, num_cols=C, num_header_rows=0, num_header_cols=0)
        t = doc.sheets[0].tables[0]
        vals = fill(t, R, C)
    rects = []
    specified = True  # False once an op fell *inside* a rectangle
    worst = "none"
    kinds = []
    order = {"none": 0, "after": 1, "before": 2, "inside": 3}
    nsteps = rng.randint(1, 7)
    for step in range(nsteps):
        c = rng.random()
        fields = {"structural": worst}
        if c < .45 or not rects:
            new = []
            for _ in range(rng.randint(1, 3)):
                r0 = rng.choice([0, R - 2, rng.randrange(R - 1)]) if R > 1 else 0
                c0 = rng.choice([0, C - 2, rng.randrange(C - 1)]) if C > 1 else 0
                r0, c0 = max(0, r0), max(0, c0)
                shape = rng.random()
                if shape < .3:
                    r1, c1 = r0, min(C - 1, c0 + rng.randint(1, 3))
                elif shape < .6:
                    r1, c1 = min(R - 1, r0 + rng.randint(1, 3)), c0
                else:
                    r1, c1 = min(R - 1, r0 + rng.randint(1, 2)), min(C - 1, c0 + rng.randint(1, 2))
                rc = (r0, c0, r1, c1)
                if (r0, c0) == (r1, c1) or not all(disjoint(rc, x) for x in rects + new):
                    continue
                new.append(rc)
            if not new or not specified:
                continue
            arg = [rname(x) for x in new]
            try:
                with warnings.catch_warnings():
                    warnings.simplefilter("ignore")
                    if len(arg) > 1 or rng.random() < .4:
                        t.merge_cells(arg)
                        rec.count("list_arguments")
                    else:
                        t.merge_cells(arg[0])
            except Exception as e:  # noqa: BLE001
                rec.violation("merge_raised", {"exc": type(e).__name__, **fields}, {"arg": arg, "msg": str(e)[:200]}, case=case)
                return
            rects += new
            rec.count("rectangles_merged", len(new))
            kinds.append(("merge", len(new)))
        elif c < .6:
            # write to an anchor or a cell outside every rectangle
            cells = [(r, cc) for r in range(R) for cc in range(C)]
            want, _ = expect(rects)
            free = [p for p in cells if want.get(p, ("x",))[0] != "ref"]
            if not free or not specified:
                continue
            r, cc = rng.choice(free)
            v = f"w{step}"
            with warnings.catch_warnings():
                warnings.simplefilter("ignore")
                t.write(r, cc, v)
            vals[(r, cc)] = v
            kinds.append(("write", "anchor" if want.get((r, cc)) else "outside"))
        elif c < .9:
            axis = rng.choice(["row", "col"])
            size = R if axis == "row" else C
            delete = rng.random() < .4
            n = rng.choice([1, 1, 2])
            if delete:
                if size - n < 2:
                    continue
                index = rng.randrange(0, size - n + 1)
                use_none = index == size - n and rng.random() < .5
            else:
                if size + n > 320:
                    continue
                index = rng.randrange(0, size)
                use_none = False
                if rng.random() < .25:
                    index, use_none = size, True
            rel = relation(axis, index, n, rects, delete)
            meth = ("delete_" if delete else "add_") + ("row" if axis == "row" else "column")
            kw = {("num_rows" if axis == "row" else "num_cols"): n}
            if not use_none:
                kw["start_row" if axis == "row" else "start_col"] = index
            try:
                with warnings.catch_warnings():
                    warnings.simplefilter("ignore")
                    getattr(t, meth)(**kw)
            except Exception as e:  # noqa: BLE001
                rec.violation("structural_op_raised", {"exc": type(e).__name__, "rel": rel}, {"op": meth, "kw": kw, "msg": str(e)[:200]}, case=case)
                return
            rec.count("structural_" + rel)
            if order[rel] > order[worst]:
                worst = rel
            if rel == "inside":
                specified = False
            else:
                rects = shift(axis, index, n, rects, delete)
                vals = shift_values(axis, index, n, vals, delete)
            if axis == "row":
                R += -n if delete else n
            else:
                C += -n if delete else n
            kinds.append((meth, rel))
        else:
            kinds.append(("save",))
            fields = {"structural": worst}
            try:
                doc2 = reopen(doc, str(case["rseed"]))
            except Exception as e:  # noqa: BLE001
                rec.violation("save_or_reopen_raised", {"exc": type(e).__name__, **fields}, {"msg": str(e)[:200]}, case=case)
                return
            t2 = doc2.sheets[0].tables[0]
            if specified:
                if not judge_view(t2, rects, vals, rec, case, fields, "reloaded"):
                    return
            else:
                ro = self_consistent(t2, rec, case, fields, "reloaded")
                oo = self_consistent(t, rec, case, fields, "open")
                if ro is not None and oo is not None and sorted(ro) != sorted(oo):
                    rec.violation("open_vs_reloaded", fields, {"open": sorted(map(list, oo)), "reloaded": sorted(map(list, ro))}, case=case)
                    return
                if ro is None or oo is None:
                    return
            continue
        fields = {"structural": worst}
        if specified:
            if not judge_view(t, rects, vals, rec, case, fields, "open"):
                return
        elif self_consistent(t, rec, case, fields, "open") is None:
            return
    # final: save + reopen, both views
    fields = {"structural": worst}
    try:
        doc2 = reopen(doc, str(case["rseed"]))
    except Exception as e:  # noqa: BLE001
        rec.violation("save_or_reopen_raised", {"exc": type(e).__name__, **fields}, {"msg": str(e)[:200]}, case=case)
        return
    t2 = doc2.sheets[0].tables[0]
    if specified:
        judge_view(t2, rects, vals, rec, case, fields, "reloaded")
        judge_view(t, rects, vals, rec, case, fields, "open-after-save")
    else:
        ro = self_consistent(t2, rec, case, fields, "reloaded")
        oo = self_consistent(t, rec, case, fields, "open")
        if ro is not None and oo is not None and sorted(ro) != sorted(oo):
            rec.violation("open_vs_reloaded", fields, {"open": sorted(map(list, oo)), "reloaded": sorted(map(list, ro))}, case=case)
    rec.hist("history_kinds", "+".join(sorted({k[0] for k in kinds})))


def run_random(spec, rec):
    rng = random.Random(f"C12-{spec['seed']}-{spec['stream']}")
    for i in range(spec["n"]):
        case = {"part": "random", "rseed": rng.randrange(1 << 40)}
        random_case(case, rec)
        rec.case(("random", case["rseed"]))
        if i == 0:
            rec.sample({"random_history_seed": case["rseed"]})


SOURCE_DOCS = ["test-9.numbers", "issue-59.numbers", "test-custom-formats.numbers", "test-titles.numbers"]


def parse_rect(text):
    from vf.ref import a1
    a, b = text.split(":")
    r0, c0 = a1.parse_cell(a)[:2]
    r1, c1 = a1.parse_cell(b)[:2]
    return (r0, c0, r1, c1)


def source_case(case, rec):
    """A document written by Numbers whose table already has merged regions (they are stored differently from the ones the
    library writes): further regions merged through the API join them, on the open document and after save and reopen."""
    from numbers_parser import Document
    from vf import corpus
    rng = random.Random(case["rseed"])
    path = os.path.join(corpus.DATA, case["doc"])
    with warnings.catch_warnings():
        warnings.simplefilter("ignore")
        doc = Document(path)
        cands = [(si, ti) for si in range(len(doc.sheets)) for ti in range(len(doc.sheets[si].tables)) if doc.sheets[si].tables[ti].merge_ranges]
        if not cands:
            rec.build_failure("source document without merged regions")
            return
        si, ti = rng.choice(cands)
        t = doc.sheets[si].tables[ti]
        try:
            old = [parse_rect(x) for x in t.merge_ranges]
        except Exception as e:  # noqa: BLE001
            rec.build_failure(f"merge ranges of the source not parsable: {type(e).__name__}")
            return
        R, C = t.num_rows, t.num_cols
        new = []
        for _ in range(40):
            r0, c0 = rng.randrange(R), rng.randrange(C)
            r1, c1 = min(R - 1, r0 + rng.randint(0, 2)), min(C - 1, c0 + rng.randint(0, 2))
            rect = (r0, c0, r1, c1)
            if (r0, c0) != (r1, c1) and all(disjoint(rect, x) for x in old + new):
                new.append(rect)
            if len(new) >= rng.randint(1, 3):
                break
        if not new:
            rec.build_failure("no free rectangle in the source table")
            return
        fields = {"structural": "none", "origin": "numbers-written-source"}
        try:
            for x in new:
                t.merge_cells(rname(x))
        except Exception as e:  # noqa: BLE001
            rec.violation("merge_raised", {"exc": type(e).__name__, **fields}, {"arg": [rname(x) for x in new], "msg": str(e)[:200]}, case=case)
            return
    rec.count("rectangles_merged", len(new))
    rec.count("source_documents_with_added_merges")
    want = sorted(rname(x) for x in old + new)

    def judge(tbl, label):
        got, mr = view(tbl)
        rec.count("open_views_judged" if label == "open" else "reloaded_views_judged")
        if sorted(mr) != want:
            rec.violation("merge_ranges", {**fields, "view": label}, {"got": sorted(mr), "want": want, "added": [rname(x) for x in new]}, case=case)
            return
        exp_cells, _ = expect(new)
        for pos, w in exp_cells.items():
            g = got.get(pos)
            if g is None or g[0] != w[0] or (w[0] == "anchor" and g[1] != w[1]) or (w[0] == "ref" and (g[1] != w[1] or g[4] != w[4])):
                rec.violation("cell_merge_state", {**fields, "view": label, "cell": w[0]}, {"pos": list(pos), "got": repr(g), "want": repr(w)}, case=case)
                return
    judge(t, "open")
    self_consistent(t, rec, case, fields, "open")
    try:
        doc2 = reopen(doc, f"src-{case['rseed']}")
    except Exception as e:  # noqa: BLE001
        rec.violation("save_or_reopen_raised", {"exc": type(e).__name__, **fields}, {"msg": str(e)[:200]}, case=case)
        return
    t2 = doc2.sheets[si].tables[ti]
    judge(t2, "reloaded")
    self_consistent(t2, rec, case, fields, "reloaded")
    rec.case(("source", case["doc"], case["rseed"]), nontrivial=True)


def run_sources(spec, rec):
    rng = random.Random(f"C12-src-{spec['seed']}")
    for i in range(spec["n"]):
        case = {"part": "source", "doc": SOURCE_DOCS[i % len(SOURCE_DOCS)], "rseed": rng.randrange(1 << 40)}
        source_case(case, rec)
        if i == 0:
            rec.sample({"source_document": case})


def run_large(spec, rec):
    R, C = spec["shape"]
    rects = [tuple(x) for x in spec["rects"]]
    case = {"part": "simple", "shape": [R, C], "rects": [list(x) for x in rects], "as_list": len(rects) > 1}
    simple_case(R, C, rects, len(rects) > 1, rec, case)
    rec.count("regions_beyond_255_rows_or_columns", len(rects))
    rec.case(("large", R, C, tuple(rects)), nontrivial=True)
    rec.sample({"large_region": case})


def run_shard(spec, rec):
    if "cases" in spec:
        for c in spec["cases"]:
            replay(c, rec)
        return
    {"exh1": run_exh1, "exh2": run_exh2, "random": run_random, "sources": run_sources, "large": run_large}[spec["part"]](spec, rec)


def replay(case, rec):
    if case.get("part") == "source":
        return source_case(case, rec)
    if case.get("part") == "simple":
        simple_case(case["shape"][0], case["shape"][1], [tuple(r) for r in case["rects"]], case["as_list"], rec, case)
        rec.case(("replay", str(case)))
    else:
        random_case(case, rec)
