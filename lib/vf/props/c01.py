"""C01 - values written to cells are read back exactly after save and reopen.

codec part : exhaustive sub-ranges (all ints 0..+-N, all 2-decimal prices 0..P, k-digit
             mantissas at a few exponents) and random <= 15-digit floats through the real
             _pack_decimal128/_unpack_decimal128 under the inline d128_exact contract;
document part: documents of drawn shapes (tile boundaries, > 256 columns, tables made by
             add_table/add_sheet), batches of values of every supported type written at drawn
             positions (inside, on tile boundaries, outside the bounds so the table grows,
             last legal column), saved (file and package), reopened, every written cell
             compared for class and value, every other cell still empty.
"""
from __future__ import annotations

import os
import random
import shutil
import warnings
from datetime import datetime, timedelta

from vf.gen import values as V

ID = "C01"
LEVEL = "exploration"
SUITE_UNDER_MONITORS = True  # thorough tier: the unedited repository tests run with this property's contracts loaded
SUITE_CONTRACTS = ("d128_exact",)
CONTRACTS = ("d128_exact", "record_roundtrip")
REACH = {"Table.write": "Table.write", "Document.save": "Document.save", "Cell._from_value": "Cell._from_value",
         "_pack_decimal128": "_pack_decimal128", "_unpack_decimal128": "_unpack_decimal128", "Table.add_row": "Table.add_row", "Table.add_column": "Table.add_column"}
ASSUMPTIONS = ["floats are generated *as* decimals of <= 15 significant digits (float(f'{m}e{e}')), never rounded by the check",
               "-0.0 is compared with == (sign of zero not demanded); tz-aware datetimes and surrogates are outside the property",
               "growth by write is bounded (rows <= 600, columns <= 1000) because it costs O(r*c^2) in this library"]


def sizes(tier):
    return {"N": 20_000, "P": 99_999, "rand": 20_000, "docs": 384, "cells": 300} if tier == "quick" else \
           {"N": 1_000_000, "P": 9_999_999, "rand": 2_000_000, "docs": 1536, "cells": 1500}


def rule(tier):
    z = sizes(tier)
    return (f"codec: every integer -{z['N']}..{z['N']}, every price 0.00..{z['P'] / 100:.2f}, mantissas 1..9999 at exponents -300..290 step 10, {z['rand']} random <=15-digit floats "
            f"(pack -> reference decode == Decimal(repr(v)); unpack == v); documents: {z['docs']} documents x ~{z['cells']} written cells over shapes "
            "{1x1, 12x8, 255/256/257/513 rows x 1-3 cols, 2-3 rows x 256/257/300/1000 cols, add_table, add_sheet}, file and package saves. "
            "distinct = distinct (type, value) for the codec and distinct (shape class, position class, type, value hash) for documents; non-trivial = a value was written, saved, reopened and compared")


def floors(tier):
    z = sizes(tier)
    return {"evaluations": z["N"] * 2, "distinct": z["N"],
            "counters": {"codec_values": z["N"] * 2 + z["P"], "doc_cells_compared": z["docs"] * 50, "docs_saved": z["docs"] // 2, "docs_saved_twice": z["docs"] // 8, "docs_with_a_merged_region": z["docs"] // 6, "docs_with_a_merged_region_beyond_row_256": 3, "cells_overwritten_with_an_equal_value_of_another_type": 300,
                         "docs_grown_by_write": 5, "docs_multi_tile": 5, "docs_wide": 3, "package_saves": 5,
                         "contract:d128_exact.pack": z["N"], "contract:d128_exact.unpack": z["N"],
                         "type:str": 500, "type:bool": 100, "type:int": 500, "type:float": 500, "type:datetime": 300, "type:timedelta": 300}}


def plan(tier, seed):
    z = sizes(tier)
    specs = []
    k = 8
    for i in range(k):
        specs.append({"part": "codec", "i": i, "k": k, "tier": tier, "seed": seed})
    nd = 16 if tier == "quick" else 48
    per = z["docs"] // nd
    for i in range(nd):
        spec = {"part": "docs", "stream": i, "n": per, "cells": z["cells"], "tier": tier, "seed": seed}
        if i % 4 == 1:
            spec["tz"] = "CET-1CEST,M3.5.0,M10.5.0/3"   # central European time with daylight saving
        elif i % 4 == 3:
            spec["tz"] = "NZST-12NZDT,M9.5.0,M4.1.0/3"  # southern hemisphere, +12/+13
        specs.append(spec)
    return specs


# ---------------------------------------------------------------------------------------
def codec_value(v, rec):
    """pack/unpack one number through the real functions (the inline contract judges pack against
    the reference decoder); here: the end-to-end identity unpack(pack(v)) == v."""
    from numbers_parser import cell as cellmod
    try:
        b = cellmod._pack_decimal128(v)
        back = cellmod._unpack_decimal128(b)
    except Exception as e:  # noqa: BLE001
        rec.violation("codec_raised", {"exc": type(e).__name__}, {"value": repr(v)}, case={"part": "codec1", "v": repr(v)})
        return
    if back != v or (isinstance(v, float) and v != 0 and repr(float(back)) != repr(float(v))):
        rec.violation("codec_roundtrip", {"kind": "int" if float(v).is_integer() else "frac"}, {"value": repr(v), "back": repr(back)},
                      case={"part": "codec1", "v": repr(v)})


def run_codec(spec, rec):
    z = sizes(spec["tier"])
    i, k = spec["i"], spec["k"]
    n = 0
    # exhaustive integer sub-range (as int and as float: both reach the packer)
    for x in range(i, z["N"] + 1, k):
        codec_value(x, rec)
        codec_value(-x, rec)
        n += 2
    # exhaustive prices
    for c in range(i, z["P"] + 1, k):
        codec_value(c / 100.0 if (c / 100.0) == float(f"{c // 100}.{c % 100:02d}") else float(f"{c // 100}.{c % 100:02d}"), rec)
        n += 1
    # k-digit mantissas at a few exponents
    for m in range(1 + i, 10_000, k):
        for e in range(-300, 291, 10):
            x = float(f"{m}e{e}")
            if x != 0 and 1e-290 <= abs(x) <= 1e290:
                codec_value(x, rec)
                n += 1
    rec.bulk(n, n)
    rng = random.Random(f"C01-codec-{spec['seed']}-{i}")
    for _ in range(z["rand"] // k):
        x = V.rand_float15(rng)
        codec_value(x, rec)
        rec.case(("f", repr(x)))
        n += 1
    for x in V.FLOAT_BOUNDARY:
        if x == 0 or 1e-290 <= abs(x) <= 1e290:
            codec_value(x, rec)
            rec.case(("f", repr(x)))
            n += 1
    rec.count("codec_values", n)
    rec.sample({"codec": "unpack(pack(v)) == v", "v": repr(V.rand_float15(rng))})


SHAPES = [("1x1", 1, 1), ("12x8", 12, 8), ("255xN", 255, 2), ("256xN", 256, 1), ("257xN", 257, 3), ("513xN", 513, 2),
          ("Nx256", 2, 256), ("Nx257", 3, 257), ("Nx300", 2, 300), ("Nx1000", 2, 1000), ("add_table", 6, 5), ("add_sheet", 5, 4), ("5x3", 5, 3)]


def positions(rng, rows, cols, ncells, grow):
    """-> list of (r, c, class)"""
    out = {}
    tile_rows = [r for r in (0, 1, 254, 255, 256, 257, 511, 512, rows - 1) if 0 <= r < rows]
    edge_cols = [c for c in (0, 1, 25, 26, 254, 255, 256, 257, 701, 702, cols - 1) if 0 <= c < cols]
    for r in tile_rows:
        for c in edge_cols[:6]:
            out[(r, c)] = "boundary"
    while len(out) < min(ncells, rows * cols):
        out.setdefault((rng.randrange(rows), rng.randrange(cols)), "inside")
    res = [(r, c, k) for (r, c), k in out.items()]
    rng.shuffle(res)
    res = res[:ncells]
    if grow:
        g = rng.choice(["rows", "cols", "both", "lastcol"])
        if g == "rows":
            res.append((rows + rng.randint(0, 40), rng.randrange(cols), "outside-rows"))
        elif g == "cols":
            res.append((rng.randrange(rows), cols + rng.randint(0, 12), "outside-cols"))
        elif g == "both":
            res.append((rows + rng.randint(0, 10), cols + rng.randint(0, 5), "outside-both"))
        elif rows <= 3:
            res.append((0, 999, "last-legal-column"))
        # and one write into the grown area behind the first
        res.append((res[-1][0], max(0, res[-1][1] - 1), "inside-after-growth"))
    return res


def doc_case(case, rec):
    """One document: build, write, save, reopen, compare.  case is replayable."""
    from numbers_parser import Document
    from vf.gen import docs
    rng = random.Random(case["rseed"])
    if os.environ.get("TZ", "UTC") != "UTC":
        case["tz"] = os.environ["TZ"]  # a witness is replayed under the local time zone it was found under
        rec.count("docs_under_a_dst_time_zone")
    name, rows, cols = SHAPES[case["shape"]]
    package = case["package"]
    grow = case["grow"]
    try:
        with warnings.catch_warnings():
            warnings.simplefilter("ignore")
            if name == "add_table":
                doc = Document()
                table = doc.sheets[0].add_table("VF", num_rows=rows, num_cols=cols)
                tbl = (0, 1)
            elif name == "add_sheet":
                doc = Document()
                doc.add_sheet("VF Sheet", "VF", num_rows=rows, num_cols=cols)
                table = doc.sheets[1].tables[0]
                tbl = (1, 0)
            else:
                doc = Document(num_rows=rows, num_cols=cols, num_header_rows=min(rows, rng.choice([0, 1])), num_header_cols=min(cols, rng.choice([0, 1])))
                table = doc.sheets[0].tables[0]
                tbl = (0, 0)
    except Exception as e:  # noqa: BLE001
        rec.build_failure(f"Document({name}): {type(e).__name__}")
        return
    ncells = min(case["cells"], rows * cols)
    pos = positions(rng, rows, cols, ncells, grow)
    merged_pair = set()
    written = {}
    kinds = case.get("kinds", "sbifdt")
    mid = len(pos) // 2 if case.get("resave") else -1
    for k_, (r, c, pclass) in enumerate(pos):
        if k_ == mid:
            # "saving the document" is not a once-only act: an earlier save of the same open document
            # (here with half of the cells written) must not change what the later save stores
            pmid = os.path.join(docs.scratch_dir(), f"c01-{case['rseed']}-first.numbers")
            try:
                docs.save(doc, pmid, package=package)
                rec.count("docs_saved_twice")
            except Exception as e:  # noqa: BLE001
                rec.violation("save_or_reopen_raised", {"exc": type(e).__name__, "shape": name, "stage": "earlier-save"}, {"msg": str(e)[:300]}, case=case)
                return
            finally:
                if os.path.isdir(pmid):
                    shutil.rmtree(pmid, ignore_errors=True)
                elif os.path.exists(pmid):
                    os.remove(pmid)
        v = V.rand_value(rng, kinds)
        if isinstance(v, str) and len(v) > 10000 and len(written) % 50:
            v = v[:50]
        with warnings.catch_warnings(record=True) as w:
            warnings.simplefilter("always")
            try:
                if rng.random() < .12 and pclass == "inside":
                    # the cell held something else before: a value of another type that compares equal (True == 1 == 1.0,
                    # 0 == False == 0.0), or just another value - what is read back is the last value written, with its type
                    twin = {True: 1, False: 0, 1: True, 0: False, 1.0: True, 0.0: False}.get(v) if isinstance(v, (bool, int, float)) and v in (0, 1) else None
                    table.write(r, c, twin if twin is not None else rng.choice([1, True, "before", 0.0]))
                    rec.count("cells_overwritten")
                    if twin is not None:
                        rec.count("cells_overwritten_with_an_equal_value_of_another_type")
                if rng.random() < .3:
                    from vf.ref import a1
                    table.write(a1.cell_name(r, c), v)
                else:
                    table.write(r, c, v)
            except Exception as e:  # noqa: BLE001
                rec.violation("write_raised", {"exc": type(e).__name__, "type": type(v).__name__, "pos": pclass}, {"r": r, "c": c, "v": repr(v)[:200], "msg": str(e)[:200]}, case=case)
                continue
        for x in w:
            if issubclass(x.category, RuntimeWarning) and "rounded" in str(x.message):
                rec.violation("rounding_warning", {"type": type(v).__name__}, {"v": repr(v), "msg": str(x.message)}, case=case)
        written[(r, c)] = (v, pclass)
    exp_rows = max([rows] + [r + 1 for r, c in written])
    exp_cols = max([cols] + [c + 1 for r, c in written])
    # a merged region next to the written cells (none of them inside it) - in a tall table beyond the first 256 rows:
    # what is stored about a neighbouring region must not change what a written cell reads back
    if table.num_cols >= 2 and rng.random() < .5:
        from vf.ref import a1
        lo = 256 if table.num_rows > 258 else 0
        for _ in range(30):
            mr, mc = rng.randrange(lo, table.num_rows), rng.randrange(table.num_cols - 1)
            if (mr, mc) not in written and (mr, mc + 1) not in written:
                try:
                    with warnings.catch_warnings():
                        warnings.simplefilter("ignore")
                        table.merge_cells(a1.cell_name(mr, mc) + ":" + a1.cell_name(mr, mc + 1))
                    rec.count("docs_with_a_merged_region")
                    if mr >= 256:
                        rec.count("docs_with_a_merged_region_beyond_row_256")
                    merged_pair = {(mr, mc), (mr, mc + 1)}
                except Exception as e:  # noqa: BLE001
                    rec.violation("merge_raised", {"exc": type(e).__name__}, {"msg": str(e)[:200]}, case=case)
                    return
                break
    if (table.num_rows, table.num_cols) != (exp_rows, exp_cols):
        rec.violation("growth_size", {"shape": name}, {"got": [table.num_rows, table.num_cols], "want": [exp_rows, exp_cols]}, case=case)
    d = docs.scratch_dir()
    path = os.path.join(d, f"c01-{case['rseed']}.numbers")
    try:
        docs.save(doc, path, package=package)
        with warnings.catch_warnings():
            warnings.simplefilter("ignore")
            doc2 = Document(path)
    except Exception as e:  # noqa: BLE001
        rec.violation("save_or_reopen_raised", {"exc": type(e).__name__, "shape": name}, {"msg": str(e)[:300]}, case=case)
        return
    finally:
        pass
    try:
        t2 = doc2.sheets[tbl[0]].tables[tbl[1]]
        if (t2.num_rows, t2.num_cols) != (exp_rows, exp_cols):
            rec.violation("reopened_size", {"shape": name}, {"got": [t2.num_rows, t2.num_cols], "want": [exp_rows, exp_cols]}, case=case)
        data = t2.rows()
        nonempty_elsewhere = 0
        for r, row in enumerate(data):
            for c, cell in enumerate(row):
                ent = written.get((r, c))
                if ent is None:
                    if (r, c) in merged_pair:
                        continue
                    if cell.value is not None or type(cell).__name__ != "EmptyCell":
                        nonempty_elsewhere += 1
                        if nonempty_elsewhere <= 2:
                            rec.violation("unwritten_cell_not_empty", {"shape": name}, {"r": r, "c": c, "cls": type(cell).__name__, "value": repr(cell.value)[:100]}, case=case)
                    continue
                v, pclass = ent
                tname = type(v).__name__
                rec.count("doc_cells_compared")
                rec.count("type:" + tname)
                rec.hist("position_class", pclass)
                want_cls = V.EXPECTED_CLASS[type(v)]
                if type(cell).__name__ != want_cls:
                    rec.violation("cell_class", {"type": tname, "got": type(cell).__name__}, {"r": r, "c": c, "v": repr(v)[:200]}, case=case)
                elif not V.same_value(v, cell.value):
                    fields = {"type": tname, "pos": pclass if pclass.startswith("outside") else "in"}
                    if isinstance(v, (datetime, timedelta)):
                        fields["subsecond"] = bool(v.microsecond if isinstance(v, datetime) else v.microseconds)
                    if isinstance(v, str):
                        fields["why"] = "len" if len(v) != len(cell.value) else "chars"
                    rec.violation("value_readback", fields, {"r": r, "c": c, "written": repr(v)[:200], "read": repr(cell.value)[:200]}, case=case)
                rec.case((name, pclass, tname, repr(v)[:64], len(repr(v))))
        for (r, c) in written:
            if r >= len(data) or c >= len(data[r]):
                rec.violation("written_cell_missing", {"shape": name}, {"r": r, "c": c}, case=case)
    finally:
        if os.path.isdir(path):
            shutil.rmtree(path, ignore_errors=True)
        elif os.path.exists(path):
            os.remove(path)
    rec.count("docs_saved")
    rec.hist("shape", name)
    if package:
        rec.count("package_saves")
    if grow:
        rec.count("docs_grown_by_write")
    if exp_rows > 256:
        rec.count("docs_multi_tile")
    if exp_cols > 256:
        rec.count("docs_wide")


def run_docs(spec, rec):
    rng = random.Random(f"C01-docs-{spec['seed']}-{spec['stream']}")
    for i in range(spec["n"]):
        shape = (spec["stream"] + i) % len(SHAPES) if i < len(SHAPES) else rng.randrange(len(SHAPES))
        name, rows, cols = SHAPES[shape]
        cells = spec["cells"] if rows * cols >= 200 else min(spec["cells"], rows * cols)
        case = {"part": "doc", "rseed": rng.randrange(1 << 40), "shape": shape, "package": rng.random() < .25,
                "grow": rng.random() < .5 and cols <= 300, "cells": cells}
        if rng.random() < .15:
            case["kinds"] = rng.choice(["f", "i", "s", "d", "t", "if"])
        if rng.random() < .3:
            case["resave"] = True
        doc_case(case, rec)
        if i == 0:
            rec.sample({"document": case, "shape": SHAPES[shape][0]})


def run_shard(spec, rec):
    if "cases" in spec:
        for c in spec["cases"]:
            replay(c, rec)
        return
    {"codec": run_codec, "docs": run_docs}[spec["part"]](spec, rec)


def replay(case, rec):
    if case.get("part") == "codec1":
        v = eval(case["v"], {"__builtins__": {}})  # noqa: S307 - repr of an int/float
        codec_value(v, rec)
        rec.case(("f", case["v"]))
    else:
        doc_case(case, rec)
