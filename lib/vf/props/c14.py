"""C14 - displayed dates and durations agree with the stored value.

dates    : every documented directive x every value of the field it depends on (all 24 hours,
           60 minutes, 60 seconds, every day of a leap and a common year, 12 months, 7
           weekdays, sampled years and sub-seconds) through
           Table.set_cell_formatting(..., "datetime", date_time_format=...), and random
           composites with punctuation, digits and quoted text (custom formats); oracle =
           ref/datefmt.py, a table written from docs/api/datetime.rst (no strftime).
durations: 0..10 years at millisecond resolution concentrated on unit boundaries x all 21
           (largest >= smallest) unit pairs x 3 styles, plus automatic units; oracle =
           ref/durfmt.py: the text, summed unit by unit, equals the duration truncated to the
           smallest unit shown.
Both views are judged: formatted_value on the open document and on the reopened file, and
they must agree with each other.
"""
from __future__ import annotations

import calendar
import os
import random
import warnings
from datetime import datetime, timedelta

ID = "C14"
LEVEL = "exploration"
CONTRACTS = ()
REACH = {"_decode_date_format": "_decode_date_format", "_decode_date_format_field": "_decode_date_format_field", "Cell._date_format": "_date_format",
         "Cell._duration_format": "_duration_format", "_auto_units": "_auto_units", "Table.set_cell_formatting": "set_cell_formatting"}
ASSUMPTIONS = ["'y': the docs say year without century, the Numbers-recorded reference workbook shows the full year: str(year) and str(year % 100) are both accepted",
               "'yyyy' below year 1000: zero padding is not specified; '1' and '0001' are both accepted; 'ww' padded or unpadded accepted",
               "'W' (week of month) depends on an unspecified first day of week: only W(day 1) = 0, W(d+7) = W(d)+1 and monotonicity are demanded",
               "compact duration style with automatic units does not name its units: some contiguous unit window of that many fields must make the text equal the truncated duration",
               "duration formats cannot be created through the API: the workload builds the FormatStructArchive through the model's format list (construction only; observation is through formatted_value); negative durations are outside the domain",
               "English names (the library renders in the C locale)"]


def rule(tier):
    return ("date cases = (directive | composite format, instant): " + ("every directive x every value of the field it depends on" if tier == "quick" else "every directive x every instant of the full instant list")
            + " (24 hours, 60 minutes, 60 seconds, 731 days of 2023+2024, years {1,99,100,999,1900,1999,2000,2001,2024,9999}, 7 sub-second values), random composites of 1-6 parts with punctuation/digits/quoted text; "
              "duration cases = (milliseconds, largest unit, smallest unit, style) over all 21 unit pairs x 3 styles x boundary-heavy values, plus automatic units. "
              "distinct = distinct (format, value); all are non-trivial (the text is compared with the documented rendering)")


def floors(tier):
    return {"evaluations": 20_000 if tier == "quick" else 150_000, "distinct": 15_000 if tier == "quick" else 100_000,
            "counters": {"date_cells_open": 5000, "date_cells_reloaded": 5000, "duration_cells_open": 10_000, "duration_cells_reloaded": 10_000, "composites": 500,
                         "quoted_composites": 100, "date_cells_in_two_table_documents": 1500, "custom_formats_created_after_the_first_display": 8, "auto_unit_cells": 300, "W_months_checked": 20, "unit_pairs": 21},
            "hist_sizes": {"directive": 36}}


DIRECTIVES = ["a", "EEEE", "EEE", "yyyy", "yy", "y", "MMMM", "MMM", "MM", "M", "d", "dd", "DDD", "DD", "D", "HH", "H", "hh", "h", "k", "kk", "K", "KK", "mm", "m", "ss", "s",
              "W", "ww", "G", "F", "S", "SS", "SSS", "SSSS", "SSSSS"]


def instants():
    out = {"hour": [], "minute": [], "second": [], "yday": [], "day": [], "month": [], "weekday": [], "year": [], "subsecond": [], "era": []}
    for h in range(24):
        out["hour"].append(datetime(2024, 3, 5, h, 7, 9))
    for m in range(60):
        out["minute"].append(datetime(2023, 11, 30, 13, m, 58))
        out["second"].append(datetime(2023, 11, 30, 23, 59, m))
    for y in (2023, 2024):
        t = datetime(y, 1, 1, 5)
        while t.year == y:
            out["yday"].append(t)
            t += timedelta(days=1)
    out["day"] = out["yday"]
    out["month"] = [datetime(y, m, 15, 12) for y in (2023, 2024) for m in range(1, 13)]
    out["weekday"] = [datetime(2024, 7, 1 + i, 8) for i in range(7)] + [datetime(2023, 1, 1 + i, 8) for i in range(7)]
    out["year"] = [datetime(y, 6, 15, 12) for y in (1, 99, 100, 999, 1900, 1999, 2000, 2001, 2024, 9999)]
    out["subsecond"] = [datetime(2020, 2, 29, 0, 0, 0, us) for us in (0, 1, 999, 1000, 99000, 500000, 999999)]
    out["era"] = [datetime(1, 1, 1), datetime(2024, 1, 1), datetime(9999, 12, 31)]
    return out


def plan(tier, seed):
    specs = []
    k = 8
    for i in range(k):
        specs.append({"part": "dates", "i": i, "k": k, "tier": tier, "seed": seed})
    for i in range(12 if tier == "quick" else 16):
        specs.append({"part": "composites", "stream": i, "n": 400 if tier == "quick" else 700, "tier": tier, "seed": seed})
    pairs = [(li, si) for li in range(6) for si in range(li, 6)]
    for (li, si) in pairs:
        specs.append({"part": "durations", "li": li, "si": si, "n": 1500 if tier == "quick" else 16000, "tier": tier, "seed": seed})
    specs.append({"part": "auto", "n": 3000 if tier == "quick" else 20000, "tier": tier, "seed": seed})
    for i in range(4 if tier == "quick" else 16):
        specs.append({"part": "two", "stream": i, "n": 60 if tier == "quick" else 1000, "tier": tier, "seed": seed})
    return specs


# ---------------------------------------------------------------------------------------
def save_reopen(doc, tag):
    from numbers_parser import Document
    from vf.gen import docs
    path = os.path.join(docs.scratch_dir(), f"c14-{tag}.numbers")
    try:
        docs.save(doc, path)
        with warnings.catch_warnings():
            warnings.simplefilter("ignore")
            return Document(path)
    finally:
        if os.path.exists(path):
            os.remove(path)


def enc_t(t):
    return [t.year, t.month, t.day, t.hour, t.minute, t.second, t.microsecond]


def run_date_cells(cases, rec, tag, two=None, order=None):
    """cases: list of {"fmt": str, "parts": [[kind, text]...], "t": [..], "custom": bool}.  two = "table" | "sheet": the same
    cases are also placed, in the given order, in a second table (of the same or of another sheet) of the same document."""
    from numbers_parser import Document
    from vf.ref import datefmt
    ncols = 8
    nrows = (len(cases) + ncols - 1) // ncols
    with warnings.catch_warnings():
        warnings.simplefilter("ignore")
        doc = Document(num_rows=max(1, nrows), num_cols=ncols, num_header_rows=0, num_header_cols=0)
        tables = [doc.sheets[0].tables[0]]
        if two == "table":
            tables.append(doc.sheets[0].add_table("Second", num_rows=max(1, nrows), num_cols=ncols))
        elif two == "sheet":
            doc.add_sheet("Other", "Second", num_rows=max(1, nrows), num_cols=ncols)
            tables.append(doc.sheets[1].tables[0])
        customs = {}
        placed = []
        seqs = [(0, i, i) for i in range(len(cases))] + ([(1, slot, i) for slot, i in enumerate(order)] if two else [])
        for ti, slot, i in seqs:
            cs = cases[i]
            tb = tables[ti]
            r, c = divmod(slot, ncols)
            t = datetime(*cs["t"])
            case = {"part": "date", **cs} if not two else {"part": "dates-two", "cases": cases, "order": order, "two": two}
            try:
                tb.write(r, c, t)
                if cs.get("prev"):
                    # a format the cell had before the one it is judged under (a fifth of the cells): half are displayed under it first
                    pv = cs["prev"]
                    if pv["custom"]:
                        if pv["fmt"] not in customs:
                            customs[pv["fmt"]] = doc.add_custom_format(name=f"vf {len(customs)}", type="datetime", format=pv["fmt"])
                        tb.set_cell_formatting(r, c, "custom", format=customs[pv["fmt"]])
                    else:
                        tb.set_cell_formatting(r, c, "datetime", date_time_format=pv["fmt"])
                    if pv["shown"]:
                        tb.cell(r, c).formatted_value
                    rec.count("earlier_date_formats_applied")
                if cs["custom"]:
                    if cs["fmt"] not in customs:
                        customs[cs["fmt"]] = doc.add_custom_format(name=f"vf {len(customs)}", type="datetime", format=cs["fmt"])
                    tb.set_cell_formatting(r, c, "custom", format=customs[cs["fmt"]])
                else:
                    tb.set_cell_formatting(r, c, "datetime", date_time_format=cs["fmt"])
            except Exception as e:  # noqa: BLE001
                rec.violation("format_refused", {"kind": "date", "exc": type(e).__name__, "custom": cs["custom"]}, {"fmt": cs["fmt"], "msg": str(e)[:200]}, case=case)
                continue
            placed.append((ti, r, c, cs, t, case))

        def judge(cell, cs, t, case, view):
            try:
                text = cell.formatted_value
            except Exception as e:  # noqa: BLE001
                rec.violation("formatted_value_raised", {"kind": "date", "exc": type(e).__name__, "view": view}, {"fmt": cs["fmt"], "msg": str(e)[:200]}, case=case)
                return None
            parts = [tuple(p) for p in cs["parts"]]
            if len(parts) == 1 and parts[0] == ("dir", "W"):
                return text  # judged per month by the caller
            want = datefmt.expected_composite(parts, t)
            if text not in want:
                single = parts[0][1] if len(parts) == 1 else None
                fields = {"view": view, "directive": single or "composite"}
                if single is None:
                    # which part is wrong?  judge every directive of the composite alone
                    wrong = []
                    for kind, x in parts:
                        if kind == "dir" and x != "W":
                            from numbers_parser.cell import _decode_date_format
                            if _decode_date_format(x, t) not in datefmt.REF[x](t):
                                wrong.append(x)
                    fields["directive"] = "composite:" + ("+".join(sorted(set(wrong))) if wrong else "structure")
                if single in ("k", "kk"):
                    fields["hour_has_zero_digit"] = "0" in str(t.hour) and t.hour != 0
                if text == str(t):
                    fields["directive"] = "format-ignored"
                rec.violation("date_rendering", fields, {"fmt": cs["fmt"], "t": str(t), "got": text, "want": sorted(want)[:4]}, case=case)
            return text
        open_texts = {}
        for ti, r, c, cs, t, case in placed:
            open_texts[(ti, r, c)] = judge(tables[ti].cell(r, c), cs, t, case, "open" + ("/second-table" if ti else ""))
            rec.count("date_cells_open")
            if two:
                rec.count("date_cells_in_two_table_documents")
        # a custom format created after cells of the document have been displayed once is a format like any other
        late = next((cs for cs in cases if cs["custom"]), None)
        if late is not None and not two and len(cases) < 2000:
            r, c = nrows, 0
            t = datetime(*late["t"])
            lcase = {"part": "dates-doc", "cases": [cs for cs in cases[:1]] + [late], "late": True}
            try:
                tables[0].write(r, c, t)
                fmt_late = doc.add_custom_format(name="vf late format", type="datetime", format=late["fmt"])
                tables[0].set_cell_formatting(r, c, "custom", format=fmt_late)
                rec.count("custom_formats_created_after_the_first_display")
                placed.append((0, r, c, late, t, lcase))
                open_texts[(0, r, c)] = judge(tables[0].cell(r, c), late, t, lcase, "open")
            except Exception as e:  # noqa: BLE001
                rec.violation("format_refused", {"kind": "date", "exc": type(e).__name__, "custom": True, "when": "after-first-display"}, {"fmt": late["fmt"], "msg": str(e)[:200]}, case=lcase)
        try:
            doc2 = save_reopen(doc, tag)
        except Exception as e:  # noqa: BLE001
            rec.violation("save_or_reopen_raised", {"kind": "date", "exc": type(e).__name__}, {"msg": str(e)[:300]}, case={"part": "dates-doc", "cases": cases[:2]})
            return {}
        tables2 = [doc2.sheets[0].tables[0]] + ([doc2.sheets[0].tables[1]] if two == "table" else [doc2.sheets[1].tables[0]] if two == "sheet" else [])
        texts = {}
        for ti, r, c, cs, t, case in placed:
            cell = tables2[ti].cell(r, c)
            if cell.value != t:
                rec.violation("stored_value_changed", {"kind": "date"}, {"written": str(t), "read": str(cell.value)}, case=case)
                continue
            text = judge(cell, cs, t, case, "reloaded" + ("/second-table" if ti else ""))
            rec.count("date_cells_reloaded")
            texts[(cs["fmt"], tuple(cs["t"]))] = text
            o = open_texts.get((ti, r, c))
            if o is not None and text is not None and o != text:
                rec.violation("open_vs_reloaded_text", {"kind": "date", "open_is_str_of_value": o == str(t)}, {"fmt": cs["fmt"], "open": o, "reloaded": text}, case=case)
    return texts


PREV = [{"fmt": "yyyy-MM-dd", "custom": False}, {"fmt": "HH:mm", "custom": False}, {"fmt": "EEEE d MMMM", "custom": True}, {"fmt": "d/M/yy h:mm a", "custom": False}]


def with_prev(cases):
    for i, cs in enumerate(cases):
        if i % 5 == 2 and cs["fmt"] != "W":
            cs["prev"] = {**PREV[(i // 5) % len(PREV)], "shown": bool((i // 5) % 2)}
    return cases


def run_dates(spec, rec):
    from vf.ref import datefmt
    ins = instants()
    cases = []
    allinst = sorted({t for v in ins.values() for t in v})
    for d in DIRECTIVES:
        field = datefmt.FIELD_OF[d]
        lst = allinst if spec["tier"] == "thorough" else ins[field]
        for t in lst:
            cases.append({"fmt": d, "parts": [["dir", d]], "t": enc_t(t), "custom": False})
    mine = cases[spec["i"]::spec["k"]]
    # W needs whole months in one shard: give every W case to shard 0
    mine = [c for c in mine if c["fmt"] != "W"]
    if spec["i"] == 0:
        mine += [c for c in cases if c["fmt"] == "W"]
    texts = {}
    for j in range(0, len(mine), 1500):
        texts.update(run_date_cells(with_prev(mine[j:j + 1500]), rec, f"d{spec['i']}-{j}"))
    for c in mine:
        rec.case(("date", c["fmt"], tuple(c["t"])))
        rec.hist("directive", c["fmt"])
    if spec["i"] == 0:
        # W: weak conditions per month
        bymonth = {}
        for (fmt, t), text in texts.items():
            if fmt == "W" and text is not None:
                bymonth.setdefault((t[0], t[1]), {})[t[2]] = text
        for (y, m), days in bymonth.items():
            n = calendar.monthrange(y, m)[1]
            if len(days) < n:
                continue
            rec.count("W_months_checked")
            try:
                ws = [int(days[d]) for d in range(1, n + 1)]
            except ValueError:
                rec.violation("date_rendering", {"view": "reloaded", "directive": "W"}, {"month": [y, m], "got": [days[d] for d in range(1, 8)]}, case={"part": "W", "month": [y, m]})
                continue
            if ws[0] != 0 or any(ws[i + 7] != ws[i] + 1 for i in range(n - 7)) or any(b < a for a, b in zip(ws, ws[1:])):
                rec.violation("date_rendering", {"view": "reloaded", "directive": "W"}, {"month": [y, m], "weeks": ws}, case={"part": "W", "month": [y, m]})
    if mine:
        rec.sample({"date_case": mine[0], "cells": len(mine)})


LITS = [" ", ", ", "/", "-", ":", ".", " 2 ", " - ", "  ", "_", "(", ") ", "[", "] ", " @ ", "'", "' ", " '", "%", " % ", "%%", "{", "}", "\\", "#", "&", "~"]
QUOTED = ["at", "o'clock", "Week", "h", "it's", "T", " of ", "yyyy", "é", " ", "d-M", "%d", "100%", "%Y-%m", "{0}", "\\n", "%%"]


def rand_composite(rng):
    from vf.ref import datefmt
    n = rng.randint(1, 6)
    parts = []
    custom = False
    dirs = [d for d in DIRECTIVES if d != "W"]
    if rng.random() < .3:
        parts.append(["lit", rng.choice(["(", "[", "# ", "1 "])])
    for i in range(n):
        parts.append(["dir", rng.choice(dirs)])
        if i < n - 1:
            if rng.random() < .3:
                custom = True
                q = rng.choice(QUOTED)
                # a quoted run must be delimited from directives by the quotes themselves
                parts.append(["quoted", q])
            else:
                lit = rng.choice(LITS)
                if "'" in lit:
                    custom = True  # an apostrophe is written '' in the format string
                parts.append(["lit", lit])
    if rng.random() < .2:
        custom = True
        parts.append(["quoted", rng.choice(QUOTED)])
    if not custom and rng.random() < .3:
        custom = True  # the same unquoted format through the custom-format path
    return parts, custom, datefmt.format_string([tuple(p) for p in parts])


def run_two(spec, rec):
    """The same date formats (built-in strings and custom formats) in two tables of one document, in another order in the second."""
    from vf.gen import values as V
    rng = random.Random(f"C14-two-{spec['seed']}-{spec['stream']}")
    for j in range(spec["n"]):
        cases = []
        for _ in range(rng.randint(4, 10)):
            parts, custom, fmt = rand_composite(rng)
            t = V.rand_datetime(rng).replace(microsecond=0)
            cases.append({"fmt": fmt, "parts": parts, "t": enc_t(t), "custom": custom})
        order = list(range(len(cases)))
        rng.shuffle(order)
        run_date_cells(cases, rec, f"two{spec['stream']}-{j}", two=rng.choice(["table", "table", "sheet"]), order=order)
        rec.case(("two", spec["stream"], j))
        if j == 0:
            rec.sample({"two_tables": [c["fmt"] for c in cases], "order_in_second_table": order})


def run_composites(spec, rec):
    from vf.gen import values as V
    rng = random.Random(f"C14-comp-{spec['seed']}-{spec['stream']}")
    cases = []
    for _ in range(spec["n"]):
        parts, custom, fmt = rand_composite(rng)
        t = V.rand_datetime(rng)
        if rng.random() < .5:
            t = t.replace(microsecond=0)
        cases.append({"fmt": fmt, "parts": parts, "t": enc_t(t), "custom": custom})
        rec.count("composites")
        if any(p[0] == "quoted" for p in parts):
            rec.count("quoted_composites")
        rec.case(("comp", fmt, tuple(enc_t(t))))
    run_date_cells(with_prev(cases), rec, f"c{spec['stream']}")
    rec.sample({"composite": cases[0]})


# ---------------------------------------------------------------------------------------
def dur_values(rng, n):
    from vf.ref import durfmt
    bases = [0, 1, 999, 1000, 59_999, 60_000, 3_599_999, 3_600_000, 86_399_999, 86_400_000, 604_799_999, 604_800_000, 10 * 365 * 86_400_000,
             1500, 61_000, 3_661_001, 90_000_000, 694_861_001, 2 * 604_800_000, 86_400_000 * 365]
    out = []
    for b in bases:
        for d in (-1, 0, 1):
            if b + d >= 0:
                out.append(b + d)
    while len(out) < n:
        c = rng.random()
        if c < .3:
            u = rng.choice(durfmt.UNITS)[2]
            out.append(max(0, u * rng.randint(1, 60) + rng.choice([-1, 0, 1])))
        elif c < .5:
            out.append(rng.randrange(0, 10_000_000))
        else:
            out.append(rng.randrange(0, 10 * 365 * 86_400_000))
    return out[:n]


def run_duration_cells(cases, rec, tag):
    """cases: {"ms": int, "li": int, "si": int, "style": int, "auto": bool}"""
    from numbers_parser import Document
    from vf.ref import durfmt
    ncols = 8
    nrows = (len(cases) + ncols - 1) // ncols
    try:
        from numbers_parser.constants import FormatType
        from numbers_parser.generated import TSKArchives_pb2 as TSK
        with warnings.catch_warnings():
            warnings.simplefilter("ignore")
            doc = Document(num_rows=max(1, nrows), num_cols=ncols, num_header_rows=0, num_header_cols=0)
            tb = doc.sheets[0].tables[0]
            m = doc._model
            fmt_ids = {}
            placed = []
            for i, cs in enumerate(cases):
                r, c = divmod(i, ncols)
                tb.write(r, c, timedelta(milliseconds=cs["ms"]))
                key = (cs["style"], cs["li"], cs["si"], cs["auto"])
                if key not in fmt_ids:
                    fa = TSK.FormatStructArchive(format_type=FormatType.DURATION, duration_style=cs["style"], duration_unit_largest=durfmt.UNITS[cs["li"]][0],
                                                 duration_unit_smallest=durfmt.UNITS[cs["si"]][0], use_automatic_duration_units=cs["auto"])
                    fmt_ids[key] = m._table_formats.lookup_key(tb._table_id, fa)
                tb.cell(r, c)._duration_format_id = fmt_ids[key]
                placed.append((r, c, cs))
    except Exception as e:  # noqa: BLE001 - V9: workload construction reaches under the API
        rec.build_failure(f"duration format construction: {type(e).__name__}: {str(e)[:80]}")
        return

    def judge(cell, cs, view):
        case = {"part": "duration", **cs}
        try:
            text = cell.formatted_value
        except Exception as e:  # noqa: BLE001
            rec.violation("formatted_value_raised", {"kind": "duration", "exc": type(e).__name__, "view": view}, {"case": cs, "msg": str(e)[:200]}, case=case)
            return None
        res = durfmt.judge_auto(text, cs["ms"], cs["style"]) if cs["auto"] else durfmt.judge(text, cs["ms"], cs["style"], cs["li"], cs["si"])
        if res is not None:
            what, detail = res
            fields = {"view": view, "what": what, "style": cs["style"], "auto": cs["auto"]}
            if text == str(timedelta(milliseconds=cs["ms"])):
                fields["what"] = "format-ignored"
            rec.violation("duration_rendering", fields, {**detail, "ms": cs["ms"], "largest": durfmt.UNITS[cs["li"]][1], "smallest": durfmt.UNITS[cs["si"]][1]}, case=case)
        return text
    open_texts = {}
    for r, c, cs in placed:
        open_texts[(r, c)] = judge(tb.cell(r, c), cs, "open")
        rec.count("duration_cells_open")
    try:
        doc2 = save_reopen(doc, tag)
    except Exception as e:  # noqa: BLE001
        rec.violation("save_or_reopen_raised", {"kind": "duration", "exc": type(e).__name__}, {"msg": str(e)[:300]}, case={"part": "durations-doc", "cases": cases[:2]})
        return
    t2 = doc2.sheets[0].tables[0]
    for r, c, cs in placed:
        cell = t2.cell(r, c)
        if cell.value != timedelta(milliseconds=cs["ms"]):
            rec.violation("stored_value_changed", {"kind": "duration"}, {"written_ms": cs["ms"], "read": str(cell.value)}, case={"part": "duration", **cs})
            continue
        text = judge(cell, cs, "reloaded")
        rec.count("duration_cells_reloaded")
        o = open_texts.get((r, c))
        if o is not None and text is not None and o != text:
            rec.violation("open_vs_reloaded_text", {"kind": "duration", "open_is_str_of_value": o == str(timedelta(milliseconds=cs["ms"]))}, {"open": o, "reloaded": text, "case": cs}, case={"part": "duration", **cs})


def run_durations(spec, rec):
    rng = random.Random(f"C14-dur-{spec['seed']}-{spec['li']}-{spec['si']}")
    vals = dur_values(rng, spec["n"])
    cases = []
    for i, ms in enumerate(vals):
        for style in (0, 1, 2):
            cases.append({"ms": ms, "li": spec["li"], "si": spec["si"], "style": style, "auto": False})
            rec.case(("dur", ms, spec["li"], spec["si"], style))
    for j in range(0, len(cases), 2400):
        run_duration_cells(cases[j:j + 2400], rec, f"u{spec['li']}{spec['si']}-{j}")
    rec.count("unit_pairs")
    rec.sample({"duration_case": cases[7] if len(cases) > 7 else cases[0]})


def run_auto(spec, rec):
    rng = random.Random(f"C14-auto-{spec['seed']}")
    vals = dur_values(rng, spec["n"])
    cases = []
    for ms in vals:
        style = rng.choice([0, 1, 2])
        cases.append({"ms": ms, "li": 0, "si": 5, "style": style, "auto": True})
        rec.count("auto_unit_cells")
        rec.case(("auto", ms, style))
    for j in range(0, len(cases), 2400):
        run_duration_cells(cases[j:j + 2400], rec, f"auto-{j}")
    rec.sample({"auto_case": cases[0]})


def run_shard(spec, rec):
    if "cases" in spec:
        for c in spec["cases"]:
            replay(c, rec)
        return
    {"dates": run_dates, "composites": run_composites, "durations": run_durations, "auto": run_auto, "two": run_two}[spec["part"]](spec, rec)


def replay(case, rec):
    p = case.get("part")
    if p == "date":
        run_date_cells([{k: case[k] for k in ("fmt", "parts", "t", "custom", "prev") if k in case}], rec, "replay")
        rec.case(("replay", case["fmt"]))
    elif p == "duration":
        run_duration_cells([{k: case[k] for k in ("ms", "li", "si", "style", "auto")}], rec, "replay")
        rec.case(("replay", case["ms"]))
    elif p == "W":
        y, m = case["month"]
        run_dates({"i": 0, "k": 8, "tier": "quick", "seed": 0}, rec)
    elif p in ("dates-doc",):
        run_date_cells(case["cases"], rec, "replay")
    elif p == "dates-two":
        run_date_cells(case["cases"], rec, "replay", two=case["two"], order=case["order"])
        rec.case(("replay-two", str(case["order"])))
    elif p in ("durations-doc",):
        run_duration_cells(case["cases"], rec, "replay")
