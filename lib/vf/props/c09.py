"""C09 - references in formulas name exactly the stored target cells and table.

Reference nodes (cell references and colon tracts in the shapes attested in the fixtures,
A.4) with a known stored denotation are attached to host cells of documents with generated
naming configurations; Cell.formula is read (open document and reopened file).  Two inline
contracts record every reference the library resolves and prints (nsan ref_events on
_NumbersModel.node_to_ref and CellRange.__str__); the oracle:
 * denotation: the CellRange equals the independently computed union-semantics denotation;
 * text: the printed text, resolved by an independent resolver against the document's own
   sheet/table names and header labels (A.5), matches exactly one table - the stored one -
   with the stored coordinates and '$' marks, end-points not swapped;
 * minimality (coordinate references): dropping the leftmost qualifier must make the
   resolver fail or pick another table.
Every formula of every fixture is also re-read and every reference in it judged the same way.
"""
from __future__ import annotations

import os
import random
import warnings

ID = "C09"
LEVEL = "exploration"
SUITE_UNDER_MONITORS = True  # thorough tier: the unedited repository tests run with this property's contracts loaded
SUITE_CONTRACTS = ("ref_events",)
CONTRACTS = ("ref_events",)
REACH = {"_NumbersModel.node_to_ref": "node_to_ref", "CellRange.__str__": "CellRange.__str__", "CellRange.expand_ref": "expand_ref",
         "ScopedNameRefCache.calculate_named_ranges": "calculate_named_ranges", "CellRange._format_row_span": "_format_row_span", "CellRange._format_column_span": "_format_column_span",
         "CellRange._format_cell_range": "_format_cell_range"}
ASSUMPTIONS = ["the stored denotation of a colon tract is the union of its relative index sets shifted by the host and its absolute index sets (agrees with all 186 tracts in the fixtures); 0x7FFF / 0x7FFFFFFF mean the whole axis",
               "names containing '::' or operator glyphs are generated only in labels; labels containing an apostrophe are not generated (no ground truth)",
               "for label references only unique resolution + identity is demanded, not minimality (Numbers itself is not minimal there)",
               "reference nodes are attached through model._formulas.lookup_key + cell._formula_id (construction only, V9)"]
WORDS = ["alpha", "beta", "gamma", "x men", "a+b", "north", "south", "10%", "Total", "q one", "naïve", "east", "west", "delta", "épsilon"]
TNAMES = ["T1", "T2", "Data", "Other", "Sum", "Table 1", "Données"]


def rule(tier):
    return ("cases = (naming configuration, host cell, reference): 1-4 sheets x 1-4 tables with table names unique / duplicated across sheets / shared with the host sheet, 0-2 header rows/columns, "
            "labels absent / unique / duplicated in the table, sheet or document (incl. the same label on a row and a column); references: single cells, rectangles, row spans, column spans x the 16 '$' "
            "combinations x same-table and cross-table targets at host cells of a 4x4 window; plus every reference of every fixture formula. "
            "distinct = distinct (configuration seed, host, reference shape, flags, target); non-trivial = all")


def floors(tier):
    n = 12_000 if tier == "quick" else 300_000
    return {"evaluations": int(n * .8), "distinct": int(n * .7),
            "counters": {"contract:ref_denotation": n, "contract:ref_text": int(n * .9), "references_judged_open": int(n * .22), "references_judged_reloaded": int(n * .22),
                         "cross_table_references": n // 5, "label_references_printed": 200, "qualified_references_printed": n // 10, "minimality_checked": n // 20,
                         "fixture_references": 3000, "configurations": 30, "duplicate_table_name_configs": 5, "header_label_edits": 20, "colon_node_ranges": 200, "references_involving_tables_added_after_first_read": 100},
            "hist_sizes": {"ref_shape": 4, "flags": 12}}


def plan(tier, seed):
    n = 40 if tier == "quick" else 1500
    k = 16 if tier == "quick" else 64
    specs = [{"part": "configs", "n": max(1, n // k + (1 if i < n % k else 0)), "stream": i, "refs": 300 if tier == "quick" else 200, "tier": tier, "seed": seed} for i in range(k)]
    from vf import corpus
    paths = corpus.fixture_paths()
    kk = 8
    for i in range(kk):
        specs.append({"part": "fixtures", "paths": paths[i::kk], "tier": tier, "seed": seed})
    return specs


# ---------------------------------------------------------------------------------------
def doc_naming(doc):
    """The document's own names through the public API: sheets/tables and header labels."""
    doc_names = []
    labels = {}
    for si in range(len(doc.sheets)):
        s = doc.sheets[si]
        tabs = []
        for ti in range(len(s.tables)):
            t = s.tables[ti]
            tabs.append((t.name, t._table_id))
            hr, hc = t.num_header_rows, t.num_header_cols
            rl, cl = {}, {}
            if hc > 0:
                for r in range(hr, t.num_rows):
                    try:
                        v = t.cell(r, hc - 1).formatted_value
                    except Exception:  # noqa: BLE001
                        v = None
                    if v is not None:
                        rl[r] = v
            if hr > 0:
                for c in range(hc, t.num_cols):
                    try:
                        v = t.cell(hr - 1, c).formatted_value
                    except Exception:  # noqa: BLE001
                        v = None
                    if v is not None:
                        cl[c] = v
            labels[t._table_id] = (rl, cl)
        doc_names.append((s.name, tabs))
    return doc_names, labels


def judge_event(ev, doc_names, labels, rec, case, view, origin):
    """ev: a ref event from nsan.  Judges the printed text against the stored denotation."""
    from vf.ref import formula as F
    text = ev["text"]
    rows, cols, flags = ev["den"]
    host_tid = ev["table_id"]
    target = ev["to_table_id"] if ev["to_table_id"] is not None else host_tid
    shape = "cell" if (rows and cols and rows[0] == rows[1] and cols[0] == cols[1] and not ev["node"].HasField("AST_colon_tract")) else \
            "rect" if rows and cols else "rows" if rows else "cols"
    fx = {"origin": "generated" if origin == "generated" else "fixture", "shape": shape}
    ctx = {"view": view, "cross_table": target != host_tid, "source": origin}
    rec.hist("ref_shape", shape)
    rec.hist("flags", "".join("$" if f else "-" for f in flags))
    if target != host_tid:
        rec.count("cross_table_references")
    if text is None:
        rec.count("reference_not_printed")
        return
    if isinstance(text, tuple):
        # printing raised: which end of a span lacks a unique label?
        def lab(axis, idx):
            return labels.get(target, ({}, {}))[axis].get(idx)
        names = labels.get(target, ({}, {}))
        if shape == "rows":
            a, b = names[0].get(rows[0]), names[0].get(rows[1])
            ua = a is not None and list(names[0].values()).count(a) == 1
            ub = b is not None and list(names[0].values()).count(b) == 1
        elif shape == "cols":
            a, b = names[1].get(cols[0]), names[1].get(cols[1])
            ua = a is not None and list(names[1].values()).count(a) == 1
            ub = b is not None and list(names[1].values()).count(b) == 1
        else:
            ua = ub = None
        rec.violation("reference_print_raised", {**fx, "exc": text[1], "span_begin_label_unique": ua, "span_end_label_unique": ub},
                      {"host": list(ev["host"]), "rows": rows, "cols": cols}, case=case)
        return
    rec.count("references_judged_" + ("open" if view.startswith("open") else "reloaded" if view == "reloaded" else "fixture"))
    res = F.resolve(doc_names, host_tid, text, labels)
    if res[0] != "ok":
        f2 = {**fx, "why": res[0]}
        if shape in ("rows", "cols"):
            ax = 0 if shape == "rows" else 1
            names = labels.get(target, ({}, {}))[ax]
            b_, e_ = (rows if ax == 0 else cols)
            vals = list(names.values())
            f2["span_begin_label_unique"] = names.get(b_) is not None and vals.count(names.get(b_)) == 1
            f2["span_end_label_unique"] = names.get(e_) is not None and vals.count(names.get(e_)) == 1
        if res[0] == "label-ambiguous":
            f2["ambiguity"] = res[3]
        rec.violation("reference_text_unresolvable", f2, {"text": text, "stored": [rows, cols, list(flags)], "resolver": [str(x)[:80] for x in res[1:4]]}, case=case)
        return
    _, cands, trows, tcols, tflags, used_label, quals = res
    if used_label:
        rec.count("label_references_printed")
    if quals:
        rec.count("qualified_references_printed")
    if len(cands) != 1:
        rec.violation("reference_table_ambiguous", {**fx, "candidates": min(len(cands), 3), "qualifiers": len(quals)}, {"text": text, "names": doc_names_brief(doc_names)}, case=case)
        return
    bad = []
    if cands[0] != target:
        bad.append("table")
    # normalise single-index spans: the text of a single row/column carries one flag for both ends
    want_rows, want_cols = rows, cols
    if trows != want_rows:
        bad.append("rows-swapped" if trows and want_rows and trows == (want_rows[1], want_rows[0]) else "rows")
    if tcols != want_cols:
        bad.append("cols-swapped" if tcols and want_cols and tcols == (want_cols[1], want_cols[0]) else "cols")
    wf = tuple(bool(x) for x in flags)
    if used_label:
        pass
    if tuple(tflags) != wf:
        bad.append("abs-marks")
    if bad:
        rec.violation("reference_names_other_target", {**fx, "what": "+".join(bad), "label": used_label},
                      {"text": text, "stored": [rows, cols, list(wf)], "resolved": [trows, tcols, list(tflags)], "stored_table": target, "resolved_table": cands[0]}, case=case)
        return
    # minimality of the qualification (coordinate references only)
    if quals and not used_label:
        rec.count("minimality_checked")
        shorter = "::".join(text.split("::")[1:])
        r2 = F.resolve(doc_names, host_tid, shorter, labels)
        if r2[0] == "ok" and len(r2[1]) == 1 and r2[1][0] == target:
            rec.violation("reference_overqualified", {**fx, "qualifiers": len(quals)}, {"text": text, "shorter": shorter, "names": doc_names_brief(doc_names)}, case=case)


def doc_names_brief(doc_names):
    return [[s, [n for n, _ in ts]] for s, ts in doc_names]


def build_config(rng):
    """-> (doc, tabs [(sheet_i, table_i, table)]) with a random naming configuration."""
    from numbers_parser import Document
    nsheets = rng.randint(1, 4)
    R, C = 6, 6
    with warnings.catch_warnings():
        warnings.simplefilter("ignore")
        doc = Document(num_rows=R, num_cols=C, sheet_name="S1", table_name=rng.choice(TNAMES))
        for i in range(1, nsheets):
            doc.add_sheet(f"S{i + 1}", rng.choice(TNAMES), num_rows=R, num_cols=C)
        for si in range(nsheets):
            s = doc.sheets[si]
            for _ in range(rng.randint(0, 3)):
                nm = rng.choice(TNAMES)
                if nm.lower() not in [t.name.lower() for t in s.tables]:
                    s.add_table(nm, num_rows=R, num_cols=C)
        tabs = []
        pool_doc = rng.sample(WORDS, 8)
        for si in range(nsheets):
            s = doc.sheets[si]
            pool_sheet = rng.sample(pool_doc, 6)
            for ti in range(len(s.tables)):
                t = s.tables[ti]
                hr, hc = rng.choice([0, 1, 1, 2]), rng.choice([0, 1, 1, 2])
                t.num_header_rows = hr
                t.num_header_cols = hc
                # header cells left empty (no label at all) or holding the empty string
                blank = {}
                if rng.random() < .35:
                    for _ in range(rng.randint(1, 2)):
                        if hr and rng.random() < .6:
                            blank[(hr - 1, rng.randrange(hc, C))] = rng.choice(["empty", "empty", ""])
                        elif hc:
                            blank[(rng.randrange(hr, R), hc - 1)] = rng.choice(["empty", "empty", ""])
                for r in range(R):
                    for c in range(C):
                        if (r, c) in blank:
                            if blank[(r, c)] == "":
                                t.write(r, c, "")
                            continue
                        t.write(r, c, float(r * 10 + c))
                mode = rng.choice(["absent", "unique", "dup-table", "dup-sheet", "dup-doc", "cross-axis"])
                pool = {"unique": rng.sample(WORDS, 10), "dup-table": rng.sample(WORDS, 3), "dup-sheet": pool_sheet, "dup-doc": pool_doc,
                        "cross-axis": rng.sample(WORDS, 5), "absent": []}[mode]
                if pool:
                    names_r = rng.sample(pool, min(len(pool), R)) if mode == "unique" else [rng.choice(pool) for _ in range(R)]
                    names_c = rng.sample(pool, min(len(pool), C)) if mode == "unique" else [rng.choice(pool) for _ in range(C)]
                    if mode == "unique":
                        # unique across both axes of the table
                        both = rng.sample(WORDS, min(len(WORDS), R + C))
                        names_r, names_c = both[:R], both[R:R + C]
                    if hc:
                        for r in range(hr, R):
                            if r < len(names_r) and (r, hc - 1) not in blank:
                                t.write(r, hc - 1, names_r[r])
                    if hr:
                        for c in range(hc, C):
                            if c < len(names_c) and (hr - 1, c) not in blank:
                                t.write(hr - 1, c, names_c[c])
                tabs.append((si, ti, t))
    return doc, tabs


def config_case(case, rec):
    from numbers_parser import Document
    from numbers_parser.numbers_uuid import NumbersUUID
    from vf import nsan
    from vf.gen import docs
    from vf.ref import formula as F
    rng = random.Random(case["rseed"])
    try:
        from numbers_parser.generated import TSCEArchives_pb2 as TSCE
        T = TSCE.ASTNodeArrayArchive
        doc, tabs = build_config(rng)
        m = doc._model
        uu = {t._table_id: NumbersUUID(m.table_base_id(t._table_id)).protobuf4 for _, _, t in tabs}
        names = [t.name for _, _, t in tabs]
        if len(set(names)) < len(names):
            rec.count("duplicate_table_name_configs")
        expect = []
        colon_expect = {}
        rows_of = {}  # (si, ti, host) -> (the reference stays in the host's own table, the rows it names)
        R = C = 6
        hosts = [(r, c) for r in range(1, 5) for c in range(1, 5)]
        per_table = max(1, case["refs"] // max(1, len(tabs)))
        for si, ti, t in tabs:
            hs = [rng.choice(hosts) for _ in range(per_table)]
            used = set()
            for host in hs:
                if host in used:
                    continue
                used.add(host)
                tt = t if rng.random() < .4 else rng.choice(tabs)[2]
                uuid = None if tt is t else uu[tt._table_id]
                k = rng.random()
                fl = tuple(rng.random() < .35 for _ in range(4))
                if k < .3:
                    r, c = rng.randrange(R), rng.randrange(C)
                    node = F.cellref(T, host, r, c, fl[0], fl[2], uuid)
                    rows_of[(si, ti, host)] = (tt is t, [r], False)
                elif k < .55:
                    r0 = rng.randrange(R - 1)
                    r1 = rng.randint(r0 + 1, R - 1)
                    c0 = rng.randrange(C - 1)
                    c1 = rng.randint(c0 + 1, C - 1)
                    node = F.tract(T, host, r0, r1, c0, c1, fl, uuid)
                    rows_of[(si, ti, host)] = (tt is t, [r0, r1], fl[0] != fl[1])
                elif k < .78:
                    r0 = rng.randrange(R)
                    r1 = rng.randint(r0, R - 1)
                    f2 = (fl[0], fl[1], False, False)  # also on a one-row span: $3:3 and 3:$3 are not $3:$3
                    if r0 == r1 and fl[0] != fl[1]:
                        rec.count("one_index_spans_with_unequal_marks")
                    node = F.tract(T, host, r0, r1, None, None, f2, uuid)
                    rows_of[(si, ti, host)] = (tt is t, [r0, r1], fl[0] != fl[1])
                elif k < .9:
                    c0 = rng.randrange(C)
                    c1 = rng.randint(c0, C - 1)
                    f2 = (False, False, fl[2], fl[3])
                    if c0 == c1 and fl[2] != fl[3]:
                        rec.count("one_index_spans_with_unequal_marks")
                    node = F.tract(T, host, None, None, c0, c1, f2, uuid)
                    rows_of[(si, ti, host)] = (tt is t, [], False)
                else:
                    # the other attested range shape: COLON_NODE over two cell references (99 cross-table instances in the fixtures)
                    r0 = rng.randrange(R - 1)
                    r1 = rng.randint(r0, R - 1)
                    c0 = rng.randrange(C - 1)
                    c1 = rng.randint(c0 + (1 if r1 == r0 else 0), C - 1)
                    n1 = F.cellref(T, host, r0, c0, fl[0], fl[2], uuid)
                    n2 = F.cellref(T, host, r1, c1, fl[1], fl[3], uuid)
                    colon = T.ASTNodeArchive(AST_node_type=T.COLON_NODE)
                    fn = T.ASTNodeArchive(AST_node_type=T.FUNCTION_NODE, AST_function_node_index=168, AST_function_node_numArgs=1)
                    fa = TSCE.FormulaArchive(AST_node_array=T(AST_node=[n1, n2, colon, fn]))
                    t.cell(*host)._formula_id = m._formulas.lookup_key(t._table_id, fa)
                    expect.append((si, ti, host))
                    colon_expect[(si, ti, host)] = (tt._table_id, (r0, r1), (c0, c1), fl)
                    rows_of[(si, ti, host)] = (tt is t, [r0, r1], fl[0] != fl[1])
                    continue
                fn = T.ASTNodeArchive(AST_node_type=T.FUNCTION_NODE, AST_function_node_index=168, AST_function_node_numArgs=1)
                fa = TSCE.FormulaArchive(AST_node_array=T(AST_node=[node, fn]))
                t.cell(*host)._formula_id = m._formulas.lookup_key(t._table_id, fa)
                expect.append((si, ti, host))
    except Exception as e:  # noqa: BLE001 - V9
        rec.build_failure(f"config construction: {type(e).__name__}: {str(e)[:80]}")
        return
    rec.count("configurations")

    def read_all(d, view, exp=None, colon=True):
        dn, lb = doc_naming(d)
        events = nsan.local("ref_events")
        for si, ti, host in (expect if exp is None else exp):
            t = d.sheets[si].tables[ti]
            del events[:]
            c2 = dict(case)
            c2["view"] = view
            ftext = None
            with warnings.catch_warnings():
                warnings.simplefilter("ignore")
                try:
                    ftext = t.cell(*host).formula
                except Exception as e:  # noqa: BLE001
                    if not events:
                        rec.violation("formula_read_raised", {"exc": type(e).__name__, "view": view}, {"host": list(host), "msg": str(e)[:200]}, case=c2)
                        continue
            ce = colon_expect.get((si, ti, host)) if colon else None
            if ce is not None and ftext is not None:
                # a COLON_NODE range: the joined text must name the stored rectangle in the stored table
                rec.count("colon_node_ranges")
                target, rws, cls, flg = ce
                text = ftext[4:-1] if ftext.startswith("SUM(") and ftext.endswith(")") else ftext
                res = F.resolve(dn, t._table_id, text, lb)
                fx2 = {"origin": "generated", "shape": "colon-node", "qualifiers": text.count("::")}
                if res[0] != "ok":
                    rec.violation("reference_text_unresolvable", {**fx2, "why": res[0]}, {"text": text, "stored": [rws, cls, list(flg)]}, case=c2)
                elif len(res[1]) != 1:
                    rec.violation("reference_table_ambiguous", {**fx2, "candidates": min(len(res[1]), 3)}, {"text": text, "names": doc_names_brief(dn)}, case=c2)
                elif res[1][0] != target or res[2] != rws or res[3] != cls or tuple(res[4]) != tuple(bool(x) for x in flg):
                    rec.violation("reference_names_other_target", {**fx2, "what": "table" if res[1][0] != target else "coordinates-or-marks", "label": False},
                                  {"text": text, "stored": [rws, cls, list(flg)], "resolved": [res[2], res[3], list(res[4])]}, case=c2)
                rec.case((case["rseed"], si, ti, host, view, "colon"))
            for ev in list(events):
                if tuple(ev["host"]) != tuple(host) or ev["table_id"] != t._table_id:
                    # the reference was resolved from another position than the cell the formula was read from
                    rec.violation("reference_resolved_from_another_host", {"view": view, "what": "table" if ev["table_id"] != t._table_id else "row" if ev["host"][0] != host[0] else "column"},
                                  {"asked": list(host), "resolved_from": list(ev["host"]), "text": ev.get("text") if not isinstance(ev.get("text"), tuple) else None}, case=c2)
                    break
                judge_event(ev, dn, lb, rec, c2, view, "generated")
                rec.case((case["rseed"], si, ti, host, view))
    read_all(doc, "open")
    # edit header labels after the references were printed once (the name cache must follow), then read again
    edited = 0
    with warnings.catch_warnings():
        warnings.simplefilter("ignore")
        for si, ti, t in tabs:
            hr, hc = t.num_header_rows, t.num_header_cols
            if hr and t.num_cols - hc >= 2 and rng.random() < .7:
                c1, c2 = rng.sample(range(hc, t.num_cols), 2)
                a, b = t.cell(hr - 1, c1).value, t.cell(hr - 1, c2).value
                if isinstance(a, str) and isinstance(b, str) and a != b:
                    t.write(hr - 1, c1, b)
                    t.write(hr - 1, c2, a)
                    edited += 1
            if hc and t.num_rows - hr >= 2 and rng.random() < .7:
                r1, r2 = rng.sample(range(hr, t.num_rows), 2)
                a = t.cell(r1, hc - 1).value
                if isinstance(a, str):
                    t.write(r1, hc - 1, a + " bis")
                    edited += 1
    if edited:
        rec.count("header_label_edits", edited)
        read_all(doc, "open-after-label-edit")
    # the host moves: a row is inserted above, or the first row removed, after the references were printed once. The stored
    # offsets are what they were, so a relative reference is resolved from where the host is now (kept: references into the
    # host's own table whose rows stay inside it)
    try:
        # first the other way: the first row is removed (hosts move up), the references are read, and an empty row is put back
        si_, ti_, t_ = tabs[rng.randrange(len(tabs))]
        up = []
        for (si, ti, host) in expect:
            if (si, ti) != (si_, ti_) or (si, ti, host) in colon_expect or (si, ti, host) not in rows_of:
                continue
            own, rws, mixed = rows_of[(si, ti, host)]
            if own and not mixed and host[0] >= 1 and all(1 <= r <= R - 2 for r in rws):
                up.append((si, ti, (host[0] - 1, host[1])))
        if up and t_.num_header_rows == 0 and t_.num_rows == R:
            with warnings.catch_warnings():
                warnings.simplefilter("ignore")
                t_.delete_row(start_row=0)
            rec.count("references_read_after_their_host_moved", len(up))
            rec.count("references_read_after_their_host_moved_up", len(up))
            read_all(doc, "open-after-host-moved-up", up, colon=False)
            with warnings.catch_warnings():
                warnings.simplefilter("ignore")
                t_.add_row(start_row=0)
    except Exception as e:  # noqa: BLE001 - V9
        rec.build_failure(f"row shift up: {type(e).__name__}: {str(e)[:80]}")
    try:
        si_, ti_, t_ = tabs[rng.randrange(len(tabs))]
        down = True  # removing the first row would also take referenced rows (and the last absolute row) out of other tables' references: only the insertion is generated
        moved = []
        for (si, ti, host) in expect:
            if (si, ti) != (si_, ti_) or (si, ti, host) in colon_expect or (si, ti, host) not in rows_of:
                continue
            own, rws, mixed = rows_of[(si, ti, host)]
            if mixed:
                continue  # one end of the span moves with the host and the other does not: the ends may cross, which no stored document attests
            if not own or (not down and (host[0] < 1 or any(r < 1 or r > R - 2 for r in rws))):
                continue
            moved.append((si, ti, (host[0] + (1 if down else -1), host[1])))
        if moved and t_.num_header_rows == 0:  # the row goes in above the body, not among the header rows
            colon_expect = {k_: v_ for k_, v_ in colon_expect.items() if (k_[0], k_[1]) != (si_, ti_)}
            with warnings.catch_warnings():
                warnings.simplefilter("ignore")
                if down:
                    t_.add_row(start_row=0)
                else:
                    t_.delete_row(start_row=0)
            rec.count("references_read_after_their_host_moved", len(moved))
            read_all(doc, "open-after-host-moved", moved)
            expect = [e for e in expect if (e[0], e[1]) != (si_, ti_)] + moved
    except Exception as e:  # noqa: BLE001 - V9
        rec.build_failure(f"row shift: {type(e).__name__}: {str(e)[:80]}")
    # tables added after references were printed once: a reference into (and out of) a new table names it like any other
    expect_new = []
    try:
        with warnings.catch_warnings():
            warnings.simplefilter("ignore")
            s0 = doc.sheets[0]
            have = {t.name.lower() for t in s0.tables}
            new = []
            for nm in ("Added A", "Added B"):
                if nm.lower() not in have:
                    nt = s0.add_table(nm, num_rows=R, num_cols=C)
                    for r in range(R):
                        for c in range(C):
                            nt.write(r, c, float(r + c))
                    new.append((0, len(s0.tables) - 1, nt))
            if len(new) == 2:
                uu2 = {t._table_id: NumbersUUID(m.table_base_id(t._table_id)).protobuf4 for _, _, t in new}
                olds = [t for _, _, t in tabs]
                plan_ = [(new[0], new[1][2]), (new[1], new[0][2]), (new[0], rng.choice(olds)), (new[1], rng.choice(olds))]
                for k_, ((si, ti, t), target) in enumerate(plan_):
                    host = (1 + k_ // 2, 1 + k_ % 2 + 2 * (k_ // 2))
                    fl = tuple(rng.random() < .35 for _ in range(4))
                    uuid = uu2.get(target._table_id) or uu[target._table_id]
                    if rng.random() < .5:
                        node = F.cellref(T, host, rng.randrange(R), rng.randrange(C), fl[0], fl[2], uuid)
                    else:
                        r0 = rng.randrange(R - 1)
                        c0 = rng.randrange(C - 1)
                        node = F.tract(T, host, r0, rng.randint(r0 + 1, R - 1), c0, rng.randint(c0 + 1, C - 1), fl, uuid)
                    fn = T.ASTNodeArchive(AST_node_type=T.FUNCTION_NODE, AST_function_node_index=168, AST_function_node_numArgs=1)
                    fa = TSCE.FormulaArchive(AST_node_array=T(AST_node=[node, fn]))
                    t.cell(*host)._formula_id = m._formulas.lookup_key(t._table_id, fa)
                    expect_new.append((si, ti, host))
    except Exception as e:  # noqa: BLE001 - V9
        rec.build_failure(f"tables added after the first read: {type(e).__name__}: {str(e)[:80]}")
        expect_new = []
    if expect_new:
        rec.count("references_involving_tables_added_after_first_read", len(expect_new))
        read_all(doc, "open-after-add-table", expect_new)
        expect.extend(expect_new)
    path = os.path.join(docs.scratch_dir(), f"c09-{case['rseed']}.numbers")
    try:
        docs.save(doc, path)
        with warnings.catch_warnings():
            warnings.simplefilter("ignore")
            doc2 = Document(path)
    except Exception as e:  # noqa: BLE001
        rec.violation("save_or_reopen_raised", {"exc": type(e).__name__}, {"msg": str(e)[:300]}, case=case)
        return
    finally:
        if os.path.exists(path):
            os.remove(path)
    read_all(doc2, "reloaded")


def run_configs(spec, rec):
    rng = random.Random(f"C09-{spec['seed']}-{spec['stream']}")
    for i in range(spec["n"]):
        case = {"part": "config", "rseed": rng.randrange(1 << 40), "refs": spec["refs"]}
        config_case(case, rec)
        if i == 0:
            rec.sample({"configuration": case})


def run_fixtures(spec, rec):
    from vf import corpus, nsan
    for p in spec["paths"]:
        doc, ws, exc = corpus.open_doc(p)
        if doc is None:
            continue
        try:
            dn, lb = doc_naming(doc)
        except Exception as e:  # noqa: BLE001
            rec.note(f"{os.path.basename(p)}: naming unreadable ({type(e).__name__})")
            continue
        events = nsan.local("ref_events")
        case = {"part": "fixture", "path": p}
        for s, t in corpus.all_tables(doc):
            for row in t.rows():
                for c in row:
                    if not c.is_formula:
                        continue
                    del events[:]
                    with warnings.catch_warnings():
                        warnings.simplefilter("ignore")
                        try:
                            _ = c.formula
                        except Exception:  # noqa: BLE001 - judged through the events below (print raised) or C08
                            rec.count("fixture_formula_read_raised")
                    for ev in list(events):
                        rec.count("fixture_references")
                        lab = lb.get(ev["to_table_id"] if ev["to_table_id"] is not None else ev["table_id"], ({}, {}))
                        if any("'" in str(v) for d in lab for v in d.values()):
                            rec.count("fixture_references_not_comparable_apostrophe_labels")
                            continue
                        judge_event(ev, dn, lb, rec, case, "fixture", os.path.basename(p))
                        rec.case(("fixture", os.path.basename(p), t.name, c.row, c.col, len(events)))
    rec.sample({"fixtures": [os.path.basename(p) for p in spec["paths"][:4]]})


def run_shard(spec, rec):
    if "cases" in spec:
        for c in spec["cases"]:
            replay(c, rec)
        return
    {"configs": run_configs, "fixtures": run_fixtures}[spec["part"]](spec, rec)


def replay(case, rec):
    if case.get("part") == "config":
        config_case({k: v for k, v in case.items() if k != "view"}, rec)
    elif case.get("part") == "fixture":
        run_fixtures({"paths": [case["path"]]}, rec)
