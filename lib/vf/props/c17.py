"""C17 - damaged or foreign files fail only with the library's own error types.

Level: fault_enumeration.  Each case = (source container, fault).  The faulted container is
opened with Document(path) in a worker running with -X dev -X faulthandler.  Oracle: the
inline container_errors contract around ObjectStore.__init__ (= "loading the container":
open, version check, unzip, un-frame, decode): the only exception types that may leave it
are FileError, FileFormatError, UnsupportedError.  Exceptions raised *after* the container
loaded (model-level) are counted, not violations.  A dying worker is a violation.
Violation key = (exception type, innermost numbers_parser frame).
"""
from __future__ import annotations

import io
import os
import random
import shutil
import struct
import traceback
import warnings
import zipfile

ID = "C17"
LEVEL = "fault_enumeration"
CONTRACTS = ("container_errors",)
PY_FLAGS = ["-X", "dev", "-X", "faulthandler"]
WORKER_DEATH_IS_VIOLATION = True
REACH = {"IWork.open": "IWork.open", "IWork._read_objects_from_zipfile": "_read_objects_from_zipfile", "IWork._store_blob": "_store_blob",
         "IWork._read_objects_from_package": "_read_objects_from_package", "is_iwa_file": "is_iwa_file", "IWork.document_version": "document_version",
         "IWork._open_zipfile": "_open_zipfile"}
ASSUMPTIONS = ["'loading the container' is the dynamic extent of ObjectStore.__init__ (IWork.open: existence/suffix check, version check, unzip, un-frame, decode)",
               "a fault may yield a readable document; nothing is demanded about which library error is raised",
               "exceptions after the container loaded are reported as observations only"]

SOURCES_QUICK = ["test-1.numbers", "issue-3.numbers", "test-issue-74.numbers", "TEMPLATE", "GENERATED:1", "test-7.numbers"]
SOURCES_MORE = ["test-2.numbers", "issue-18.numbers", "issue-17.numbers", "test-5.numbers", "test-pivot.numbers", "issue-32.numbers",
                "test-bullets.numbers", "test-issue-76.numbers", "GENERATED:2", "GENERATED:3", "issue-96.numbers", "simple-func.numbers"]


def rule(tier):
    return ("fault enumeration over sources {fixtures of several vintages, template, API-generated documents, package folders}: path faults (missing, wrong suffix, "
            "empty file, text file, directory without Index.zip); truncation at 0..8 bytes, evenly spaced cut points, around the central directory and EOCD; "
            "1/2/8 bit flips at structure-biased and random offsets; per-member faults applied to each archive member in turn through a rebuilt otherwise valid zip "
            "(empty, 1-4 bytes, cut mid / off by one, marker != 0, length +-1 / huge, undecodable payload, stored garbage, bad varint, header length too long, truncated plaintext, "
            "empty plaintext, unknown message type); plist garbage/missing/XML-not-plist; .iwph present; the same inside a package folder's Index.zip. "
            "distinct = distinct (source, fault class, member, parameter); non-trivial = the container was actually handed to Document()")


def floors(tier):
    return {"evaluations": 3000 if tier == "quick" else 60000, "distinct": 3000 if tier == "quick" else 50000,
            "counters": {"contract:container_errors": 3000, "outcome:library_error": 500, "outcome:document": 300,
                         "fault:member": 1500, "fault:truncate": 150, "fault:bitflip": 150, "fault:path": 20, "fault:zipfield": 1500, "fault:plist": 8, "fault:package": 20}}


def plan(tier, seed):
    specs = []
    srcs = SOURCES_QUICK + (SOURCES_MORE if tier == "thorough" else [])
    for s in srcs:
        full = tier == "thorough" or s in ("test-1.numbers", "TEMPLATE", "GENERATED:1")
        k = 6 if full else 1
        for i in range(k):
            specs.append({"part": "member", "source": s, "tier": tier, "seed": seed, "full": full, "slice": [i, k]})
        if not s.startswith("GENERATED"):  # saved bytes differ per run (uuid1): byte-offset faults would not replay
            specs.append({"part": "zip", "source": s, "tier": tier, "seed": seed, "n": 40 if tier == "quick" else 600})
            specs.append({"part": "zipfield", "source": s, "tier": tier, "seed": seed, "per_entry": 1 if tier == "quick" else 6})
    if tier == "quick":
        for s in SOURCES_MORE[:6]:
            specs.append({"part": "zip", "source": s, "tier": tier, "seed": seed, "n": 12})
    specs.append({"part": "path", "tier": tier, "seed": seed})
    for s in ["test-7.numbers", "test-5.numbers"] + (["test-issue-76.numbers", "PACKAGE-GENERATED"] if tier == "thorough" else ["PACKAGE-GENERATED"]):
        specs.append({"part": "package", "source": s, "tier": tier, "seed": seed})
    return specs


# ---------------------------------------------------------------------------------------
def source_path(name, scratch, seed=0):
    """-> path of a pristine source container (file or folder)."""
    from vf import corpus
    if name == "TEMPLATE":
        return corpus.template_path()
    if name.startswith("GENERATED") or name == "PACKAGE-GENERATED":
        from vf.gen import docs
        rng = random.Random(f"C17-{name}-{seed}")
        recipe = docs.rand_recipe(rng, size="small")
        doc, _ = docs.build(recipe)
        p = os.path.join(scratch, name.replace(":", "-") + ".numbers")
        if os.path.exists(p):
            shutil.rmtree(p, ignore_errors=True) if os.path.isdir(p) else os.remove(p)
        docs.save(doc, p, package=name == "PACKAGE-GENERATED")
        return p
    return os.path.join(corpus.DATA, name)


def as_zip_bytes(path):
    """A single-file .numbers as bytes; a package folder is zipped up (Index.zip kept nested)."""
    if os.path.isdir(path):
        buf = io.BytesIO()
        with zipfile.ZipFile(buf, "w") as z:
            for root, _, files in os.walk(path):
                for fn in files:
                    full = os.path.join(root, fn)
                    z.write(full, os.path.relpath(full, path))
        return buf.getvalue()
    with open(path, "rb") as f:
        return f.read()


def classify_open(path, rec, case, fault_class):
    """Open the faulted container; record the outcome; return the outcome string."""
    from numbers_parser import Document
    from numbers_parser.exceptions import FileError, FileFormatError, UnsupportedError
    from vf import nsan
    nsan.pop_local("last_container_escape")
    rec.count("fault:" + fault_class)
    try:
        with warnings.catch_warnings():
            warnings.simplefilter("ignore")
            Document(path)
        rec.count("outcome:document")
        return "document"
    except (FileError, FileFormatError, UnsupportedError) as e:
        rec.count("outcome:library_error")
        rec.hist("library_error", type(e).__name__)
        return "library_error"
    except Exception as e:  # noqa: BLE001
        esc = nsan.pop_local("last_container_escape")
        frame = "?"
        for fs in reversed(traceback.extract_tb(e.__traceback__)):
            if "/numbers_parser/" in fs.filename and "/generated/" not in fs.filename:
                frame = fs.name
                break
        if esc is not None:
            rec.count("outcome:escape_in_container")
            rec.violation("container_exception", {"exc": esc[0], "frame": esc[1]},
                          {"fault": fault_class, "case": {k: v for k, v in case.items() if k != "blob"}, "msg": str(e)[:200]}, case=case)
            return "escape"
        rec.count("outcome:exception_after_container_loaded")
        rec.hist("after_container", f"{type(e).__name__}@{frame}")
        return "after"


def write_zip(path, members, extra=None, order=None):
    names = [n for n, _ in members]
    if order:
        names = order
    d = dict(members)
    with zipfile.ZipFile(path, "w", zipfile.ZIP_DEFLATED) as z:
        for n in names:
            if d[n] is None:
                continue
            z.writestr(n, d[n])
        for n, b in (extra or {}).items():
            z.writestr(n, b)


def member_faults(b):
    """(name, bytes) faults of one .iwa member; plaintext-level ones go through ref/iwa."""
    from vf.ref import iwa
    yield "empty", b""
    for k in (1, 2, 3, 4, 5):
        yield f"{k}bytes", b[:k]
    yield "cut-mid", b[:len(b) // 2]
    yield "cut-1", b[:-1]
    yield "plus-1", b + b"\x00"
    yield "plus-4", b + b"\x00\x00\x00\x00"
    yield "marker", b"\x01" + b[1:]
    n = int.from_bytes(b[1:4], "little") if len(b) >= 4 else 0
    yield "len+1", b[:1] + ((n + 1) & 0xFFFFFF).to_bytes(3, "little") + b[4:]
    yield "len-1", b[:1] + max(0, n - 1).to_bytes(3, "little") + b[4:]
    yield "len-huge", b[:1] + b"\xff\xff\xff" + b[4:]
    yield "len-zero", b[:1] + b"\x00\x00\x00" + b[4:]
    yield "garbage-payload", b[:4] + bytes((x ^ 0x5A) for x in b[4:])
    yield "zeros", bytes(len(b))
    try:
        p = iwa.plain(b)
    except Exception:  # noqa: BLE001
        return
    yield "stored-garbage", iwa.frame(bytes([0xFF] * 40), stored=True)[0]
    yield "bad-varint", iwa.frame(b"\xff" * 11 + p[1:])[0]
    yield "hdr-len-too-long", iwa.frame(bytes([min(127, p[0] + 20)]) + p[1:])[0] if p else b""
    yield "hdr-len-zero", iwa.frame(b"\x00" + p[1:])[0] if p else b""
    yield "trunc-plain", iwa.frame(p[:len(p) // 2])[0]
    yield "trunc-plain-1", iwa.frame(p[:-1])[0]
    yield "zero-plain", iwa.frame(b"")[0]
    yield "one-byte-plain", iwa.frame(b"\x05")[0]
    # unknown message type: patch the first message_info.type to a type id nobody knows
    try:
        segs = iwa.segments(p)
        from numbers_parser.generated.TSPArchiveMessages_pb2 import ArchiveInfo
        new = []
        for i, (hdr, ai, msgs) in enumerate(segs):
            ai2 = ArchiveInfo()
            ai2.CopyFrom(ai)
            if i == 0 and ai2.message_infos:
                ai2.message_infos[0].type = 999_999
            new.append((ai2, msgs))
        yield "unknown-message-type", iwa.frame(iwa.build(new))[0]
        # wrong message length in the header
        new = []
        for i, (hdr, ai, msgs) in enumerate(segs):
            new.append((ai, [m + b"\x00" if i == 0 else m for m in msgs]))
        yield "message-grown", iwa.frame(iwa.build(new))[0]
    except Exception:  # noqa: BLE001
        return


PLIST_FAULTS = [("empty", b""), ("garbage", b"\x00\x01garbage"), ("missing", None),
                ("xml-not-plist", b'<?xml version="1.0"?><plist><dict><key>x</key></dict></plist>'),
                ("xml-malformed", b'<?xml version="1.0"?><plist><dict><key>x</ke'),
                ("no-version-key", b'<?xml version="1.0" encoding="UTF-8"?><plist version="1.0"><dict><key>other</key><string>x</string></dict></plist>'),
                ("version-not-string", b'<?xml version="1.0" encoding="UTF-8"?><plist version="1.0"><dict><key>fileFormatVersion</key><integer>7</integer></dict></plist>'),
                ("bplist-truncated", b"bplist00\xd1\x01"), ("array-plist", b'<?xml version="1.0" encoding="UTF-8"?><plist version="1.0"><array/></plist>')]


def run_member(spec, rec):
    from vf.gen import docs
    scratch = docs.scratch_dir()
    src = source_path(spec["source"], scratch, spec["seed"])
    data = as_zip_bytes(src)
    zin = zipfile.ZipFile(io.BytesIO(data))
    members = [(n, zin.read(n)) for n in zin.namelist() if not n.endswith("/")]
    rng = random.Random(f"C17-member-{spec['source']}-{spec['seed']}")
    out = os.path.join(scratch, "f17.numbers")
    iwa_members = [n for n, _ in members if n.endswith(".iwa")]
    if not spec["full"]:
        keep = set(rng.sample(iwa_members, min(len(iwa_members), 10)))
        keep.update(n for n in iwa_members if n.endswith(("Document.iwa", "Metadata.iwa", "DocumentStylesheet.iwa")))
    else:
        keep = set(iwa_members)
    si, sk = spec.get("slice", [0, 1])
    keep = set(sorted(keep)[si::sk])
    first = si == 0
    # a nested Index.zip (issue-32 style / zipped package): apply member faults inside it too
    for n, b in members:
        if n.endswith(".iwa") and n in keep:
            for fname, fb in member_faults(b):
                case = {"part": "member", "source": spec["source"], "member": n, "fault": fname, "seed": spec["seed"]}
                write_zip(out, [(m, fb if m == n else mb) for m, mb in members])
                classify_open(out, rec, case, "member")
                rec.case((spec["source"], n, fname))
        elif n.endswith(".plist") and first:
            for fname, fb in PLIST_FAULTS:
                case = {"part": "member", "source": spec["source"], "member": n, "fault": "plist-" + fname, "seed": spec["seed"]}
                write_zip(out, [(m, fb if m == n else mb) for m, mb in members])
                classify_open(out, rec, case, "plist")
                rec.case((spec["source"], n, "plist-" + fname))
        elif n.lower().endswith("index.zip") and first:
            inner = zipfile.ZipFile(io.BytesIO(b))
            imembers = [(m, inner.read(m)) for m in inner.namelist()]
            for m, mb in imembers[:: max(1, len(imembers) // 6)]:
                for fname, fb in member_faults(mb):
                    buf = io.BytesIO()
                    with zipfile.ZipFile(buf, "w") as z:
                        for m2, mb2 in imembers:
                            z.writestr(m2, fb if m2 == m else mb2)
                    case = {"part": "member", "source": spec["source"], "member": n + "!" + m, "fault": fname, "seed": spec["seed"]}
                    write_zip(out, [(x, buf.getvalue() if x == n else xb) for x, xb in members])
                    classify_open(out, rec, case, "member")
                    rec.case((spec["source"], n + "!" + m, fname))
            for fname, fb in (("empty", b""), ("garbage", b"PK\x03\x04garbage"), ("truncated", b[: len(b) // 2])):
                case = {"part": "member", "source": spec["source"], "member": n, "fault": "innerzip-" + fname, "seed": spec["seed"]}
                write_zip(out, [(x, fb if x == n else xb) for x, xb in members])
                classify_open(out, rec, case, "member")
                rec.case((spec["source"], n, "innerzip-" + fname))
    # encrypted marker, duplicate plist, extra junk member
    for fname, extra in () if not first else (("iwph", {".iwph": b"x"}), ("junk-iwa", {"Index/Junk.iwa": b"\x00\x03\x00\x00abc"}), ("junk-iwa-short", {"Index/Junk.iwa": b"\x00"}),
                         ("junk-empty-iwa", {"Index/Junk.iwa": b""})):
        case = {"part": "member", "source": spec["source"], "member": "+", "fault": "extra-" + fname, "seed": spec["seed"]}
        write_zip(out, members, extra=extra)
        classify_open(out, rec, case, "member")
        rec.case((spec["source"], "+", fname))
    rec.sample({"source": spec["source"], "members": len(members), "faulted_members": len(keep), "faults_per_member": len(list(member_faults(members[0][1]))) if members else 0})
    if os.path.exists(out):
        os.remove(out)


def zip_landmarks(data):
    """offsets of the central directory and EOCD record."""
    eocd = data.rfind(b"PK\x05\x06")
    if eocd < 0:
        return None, None
    cd_size, cd_off = struct.unpack("<II", data[eocd + 12:eocd + 20])
    return cd_off, eocd


CD_FIELDS = {"version_needed": (6, 2), "flags": (8, 2), "method": (10, 2), "crc": (16, 4), "csize": (20, 4), "usize": (24, 4), "name_len": (28, 2),
             "extra_len": (30, 2), "comment_len": (32, 2), "local_offset": (42, 4)}
LOCAL_FIELDS = {"version_needed": (4, 2), "flags": (6, 2), "method": (8, 2), "crc": (14, 4), "csize": (18, 4), "usize": (22, 4), "name_len": (26, 2), "extra_len": (28, 2)}
EOCD_FIELDS = {"disk_entries": (8, 2), "total_entries": (10, 2), "cd_size": (12, 4), "cd_offset": (16, 4), "comment_len": (20, 2)}


def zipfield_values(field, cur):
    if field == "method":
        return [0, 1, 8, 9, 12, 14, 93, 95, 98, 99, 0xFFFF]
    if field == "flags":
        return [cur | 1, cur | 8, cur | 0x40, cur | 0x800, cur | 0x2000, 0xFFFF]
    if field == "version_needed":
        return [0, 46, 63, 0xFFFF]
    if field == "crc":
        return [cur ^ 1, 0]
    if field in ("name_len", "extra_len", "comment_len"):
        return [0, cur + 1, max(0, cur - 1), 0xFFFF]
    if field in ("disk_entries", "total_entries"):
        return [0, cur + 1, max(0, cur - 1), 0xFFFF]
    return [0, cur + 1, max(0, cur - 1), cur * 2 + 7, 0xFFFFFFFF]


def zipfield_faults(data, rng, per_entry):
    """Structured zip faults: one header field of one entry (central directory record, local header or the end
    record) overwritten with a value that field can legally or illegally hold - a compression method the reader
    has a decompressor for but the data is not in (bzip2, lzma), the encryption flags, sizes, lengths, offsets."""
    cd, eocd = zip_landmarks(data)
    if cd is None:
        return
    entries = []
    pos = cd
    while pos + 46 <= len(data) and data[pos:pos + 4] == b"PK\x01\x02":
        nl, el, cl = struct.unpack("<HHH", data[pos + 28:pos + 34])
        lo = struct.unpack("<I", data[pos + 42:pos + 46])[0]
        entries.append((pos, lo, data[pos + 46:pos + 46 + nl].decode("utf-8", "replace")))
        pos += 46 + nl + el + cl
    if not entries:
        return
    # which entries: the first archives, the metadata, one data file, and a random few
    pick = {0, 1, len(entries) - 1}
    for i, (_, _, name) in enumerate(entries):
        if name.endswith(("Metadata.iwa", "Document.iwa", "Properties.plist", "DocumentIdentifier")) or "Tile" in name:
            pick.add(i)
    pick |= {rng.randrange(len(entries)) for _ in range(per_entry)}
    for i in sorted(pick)[:12]:
        cpos, lpos, name = entries[i]
        for where, base, table in (("cd", cpos, CD_FIELDS), ("local", lpos, LOCAL_FIELDS)):
            if where == "local" and data[lpos:lpos + 4] != b"PK\x03\x04":
                continue
            for field, (off, size) in table.items():
                cur = int.from_bytes(data[base + off:base + off + size], "little")
                for v in zipfield_values(field, cur):
                    v &= (1 << (8 * size)) - 1
                    if v == cur:
                        continue
                    b = bytearray(data)
                    b[base + off:base + off + size] = v.to_bytes(size, "little")
                    yield {"entry": i, "where": where, "field": field, "value": v, "member": name}, bytes(b)
        # the same field changed in both places consistently (the reader cross-checks some of them)
        for field in ("method", "flags"):
            if data[lpos:lpos + 4] != b"PK\x03\x04":
                continue
            cur = int.from_bytes(data[cpos + CD_FIELDS[field][0]:cpos + CD_FIELDS[field][0] + 2], "little")
            for v in zipfield_values(field, cur):
                v &= 0xFFFF
                if v == cur:
                    continue
                b = bytearray(data)
                b[cpos + CD_FIELDS[field][0]:cpos + CD_FIELDS[field][0] + 2] = v.to_bytes(2, "little")
                b[lpos + LOCAL_FIELDS[field][0]:lpos + LOCAL_FIELDS[field][0] + 2] = v.to_bytes(2, "little")
                yield {"entry": i, "where": "both", "field": field, "value": v, "member": name}, bytes(b)
    for field, (off, size) in EOCD_FIELDS.items():
        cur = int.from_bytes(data[eocd + off:eocd + off + size], "little")
        for v in zipfield_values(field, cur):
            v &= (1 << (8 * size)) - 1
            if v == cur:
                continue
            b = bytearray(data)
            b[eocd + off:eocd + off + size] = v.to_bytes(size, "little")
            yield {"entry": -1, "where": "eocd", "field": field, "value": v, "member": ""}, bytes(b)


def run_zipfield(spec, rec):
    from vf.gen import docs
    scratch = docs.scratch_dir()
    src = source_path(spec["source"], scratch, spec["seed"])
    data = as_zip_bytes(src)
    rng = random.Random(f"C17-zipfield-{spec['source']}-{spec['seed']}")
    out = os.path.join(scratch, "zf17.numbers")
    n = 0
    for desc, b in zipfield_faults(data, rng, spec.get("per_entry", 2)):
        with open(out, "wb") as f:
            f.write(b)
        case = {"part": "zipfield", "source": spec["source"], "seed": spec["seed"], "per_entry": spec.get("per_entry", 2), **desc}
        classify_open(out, rec, case, "zipfield")
        rec.hist("zipfield", desc["where"] + ":" + desc["field"])
        rec.case((spec["source"], "zipfield", desc["entry"], desc["where"], desc["field"], desc["value"]))
        n += 1
    rec.sample({"source": spec["source"], "zip_header_field_faults": n})
    if os.path.exists(out):
        os.remove(out)


def run_zip(spec, rec):
    from vf.gen import docs
    scratch = docs.scratch_dir()
    src = source_path(spec["source"], scratch, spec["seed"])
    data = as_zip_bytes(src)
    rng = random.Random(f"C17-zip-{spec['source']}-{spec['seed']}")
    out = os.path.join(scratch, "z17.numbers")
    n = spec["n"]
    cd, eocd = zip_landmarks(data)
    cuts = set(range(0, 9)) | {len(data) - 1, len(data) - 2, len(data) - 21, len(data) - 22, len(data) - 23}
    if cd is not None:
        cuts |= {cd - 1, cd, cd + 1, cd + 20, (cd + eocd) // 2, eocd - 1, eocd, eocd + 1, eocd + 4, eocd + 10}
    cuts |= {30, 31, 60, 64, 100, 128, 4096}
    cuts |= {int(len(data) * i / n) for i in range(1, n)}
    for c in sorted(x for x in cuts if 0 <= x < len(data)):
        with open(out, "wb") as f:
            f.write(data[:c])
        case = {"part": "truncate", "source": spec["source"], "at": c, "seed": spec["seed"]}
        classify_open(out, rec, case, "truncate")
        rec.case((spec["source"], "truncate", c))
    # bit flips
    hot = []
    if cd is not None:
        hot = list(range(cd, min(len(data), eocd + 22)))
    locals_ = [m.start() for m in __import__("re").finditer(b"PK\x03\x04", data)][:200]
    for i in range(n * 3):
        k = (1, 2, 8)[i % 3]
        pos = []
        for _ in range(k):
            c = rng.random()
            if hot and c < .35:
                pos.append(rng.choice(hot))
            elif locals_ and c < .6:
                pos.append(min(len(data) - 1, rng.choice(locals_) + rng.randrange(0, 46)))
            else:
                pos.append(rng.randrange(len(data)))
        bits = [rng.randrange(8) for _ in pos]
        b = bytearray(data)
        for p_, bit in zip(pos, bits):
            b[p_] ^= 1 << bit
        with open(out, "wb") as f:
            f.write(b)
        case = {"part": "bitflip", "source": spec["source"], "pos": pos, "bits": bits, "seed": spec["seed"]}
        classify_open(out, rec, case, "bitflip")
        rec.case((spec["source"], "bitflip", tuple(pos), tuple(bits)))
    # appended junk, prepended junk, zeroed regions
    for name, b in (("append", data + b"junk" * 10), ("prepend", b"junk" + data), ("zero-head", bytes(64) + data[64:]),
                    ("zero-tail", data[:-64] + bytes(64)), ("zero-cd", data[:cd] + bytes(len(data) - cd) if cd else data)):
        with open(out, "wb") as f:
            f.write(b)
        case = {"part": "mangle", "source": spec["source"], "how": name, "seed": spec["seed"]}
        classify_open(out, rec, case, "truncate")
        rec.case((spec["source"], "mangle", name))
    rec.sample({"source": spec["source"], "bytes": len(data), "truncations": len(cuts), "bitflips": n * 3, "central_directory_at": cd})
    if os.path.exists(out):
        os.remove(out)


def run_path(spec, rec):
    from vf import corpus
    from vf.gen import docs
    scratch = docs.scratch_dir()
    good = corpus.template_path()
    cases = []
    cases.append(("missing", os.path.join(scratch, "nope.numbers")))
    p = os.path.join(scratch, "suffix.txt")
    shutil.copy(good, p)
    cases.append(("wrong-suffix", p))
    p = os.path.join(scratch, "nosuffix")
    shutil.copy(good, p)
    cases.append(("no-suffix", p))
    p = os.path.join(scratch, "upper.NUMBERS")
    shutil.copy(good, p)
    cases.append(("upper-suffix", p))
    p = os.path.join(scratch, "empty.numbers")
    open(p, "wb").close()
    cases.append(("empty-file", p))
    p = os.path.join(scratch, "text.numbers")
    with open(p, "w") as f:
        f.write("hello, this is not a zip\n" * 10)
    cases.append(("text-file", p))
    p = os.path.join(scratch, "dir-empty.numbers")
    os.makedirs(p, exist_ok=True)
    cases.append(("empty-directory", p))
    p = os.path.join(scratch, "dir-noindex.numbers")
    os.makedirs(os.path.join(p, "Metadata"), exist_ok=True)
    with open(os.path.join(p, "Metadata", "Properties.plist"), "wb") as f:
        f.write(b"x")
    cases.append(("directory-without-index", p))
    p = os.path.join(scratch, "dir.txt")
    os.makedirs(p, exist_ok=True)
    cases.append(("directory-wrong-suffix", p))
    p = os.path.join(scratch, "zip-no-members.numbers")
    with zipfile.ZipFile(p, "w"):
        pass
    cases.append(("zip-without-members", p))
    p = os.path.join(scratch, "zip-other.numbers")
    with zipfile.ZipFile(p, "w") as z:
        z.writestr("hello.txt", "hi")
    cases.append(("zip-of-something-else", p))
    p = os.path.join(scratch, "zip-only-plists.numbers")
    with zipfile.ZipFile(p, "w") as z:
        zin = zipfile.ZipFile(good)
        for n in zin.namelist():
            if n.endswith(".plist"):
                z.writestr(n, zin.read(n))
    cases.append(("zip-only-plists", p))
    # names a shell or an office suite produces: a leading tilde (no such user; lock and backup files), blanks, non-ASCII, a
    # trailing dot, a very long name - given as relative paths from the scratch directory
    odd = ["~no-such-user-vf/x.numbers", "~$budget.numbers", "~budget.numbers", "~", "~.numbers", " lead.numbers", "trail .numbers", "d\u00e9j\u00e0 vu \u8868.numbers",
           "dots..numbers", ".numbers", "x" * 200 + ".numbers", "a/../~b.numbers", "%7Eescaped.numbers", "$HOME.numbers", "*.numbers"]
    cwd = os.getcwd()
    try:
        os.chdir(scratch)
        for nm in odd:
            exists = False
            if "/" not in nm:
                try:
                    shutil.copy(good, nm)
                    exists = True
                except OSError:
                    pass
            cases.append(("odd-name:" + nm[:24] + (":present" if exists else ":absent"), nm))
        for name, path in cases:
            case = {"part": "path", "kind": name}
            classify_open(path, rec, case, "path")
            rec.case(("path", name))
    finally:
        os.chdir(cwd)
    rec.sample({"path_faults": [c[0] for c in cases]})


def run_package(spec, rec):
    """Faults inside a package folder: Index.zip members, Metadata files, stray files."""
    from vf.gen import docs
    scratch = docs.scratch_dir()
    src = source_path(spec["source"], scratch, spec["seed"])
    if not os.path.isdir(src):
        rec.note(f"{spec['source']} is not a package folder")
        return
    work = os.path.join(scratch, "pkg17.numbers")
    rng = random.Random(f"C17-pkg-{spec['source']}-{spec['seed']}")

    def fresh():
        shutil.rmtree(work, ignore_errors=True)
        shutil.copytree(src, work)

    def go(fault, fn):
        fresh()
        try:
            fn()
        except FileNotFoundError:
            return
        case = {"part": "package", "source": spec["source"], "fault": fault, "seed": spec["seed"]}
        classify_open(work, rec, case, "package")
        rec.case((spec["source"], "package", fault))

    idx = None
    for root, _, files in os.walk(src):
        for fn in files:
            if fn.lower() == "index.zip":
                idx = os.path.relpath(os.path.join(root, fn), src)
    go("pristine", lambda: None)
    if idx:
        go("index-missing", lambda: os.remove(os.path.join(work, idx)))
        go("index-empty", lambda: open(os.path.join(work, idx), "wb").close())
        go("index-garbage", lambda: open(os.path.join(work, idx), "wb").write(b"not a zip at all"))
        full = open(os.path.join(src, idx), "rb").read()
        for c in (1, 4, 22, len(full) // 2, len(full) - 1, len(full) - 22):
            go(f"index-truncated-{c}", lambda c=c: open(os.path.join(work, idx), "wb").write(full[:c]))
        for i in range(20 if spec["tier"] == "quick" else 200):
            pos = rng.randrange(len(full))
            bit = rng.randrange(8)

            def flip(pos=pos, bit=bit):
                b = bytearray(full)
                b[pos] ^= 1 << bit
                open(os.path.join(work, idx), "wb").write(b)
            go(f"index-bitflip-{pos}-{bit}", flip)
        zin = zipfile.ZipFile(io.BytesIO(full))
        imembers = [(m, zin.read(m)) for m in zin.namelist()]
        pick = [m for m, _ in imembers if m.endswith(".iwa")]
        pick = pick if spec["tier"] == "thorough" else pick[:: max(1, len(pick) // 8)]
        for m in pick:
            mb = dict(imembers)[m]
            for fname, fb in member_faults(mb):
                def put(m=m, fb=fb):
                    with zipfile.ZipFile(os.path.join(work, idx), "w") as z:
                        for m2, mb2 in imembers:
                            z.writestr(m2, fb if m2 == m else mb2)
                go(f"index-member-{m}-{fname}", put)
    for rel in ("Metadata/Properties.plist", "Metadata/BuildVersionHistory.plist", "Metadata/DocumentIdentifier"):
        go(f"missing-{rel}", lambda rel=rel: os.remove(os.path.join(work, rel)))
        for fname, fb in PLIST_FAULTS:
            if fb is None:
                continue
            go(f"{rel}-{fname}", lambda rel=rel, fb=fb: open(os.path.join(work, rel), "wb").write(fb))
    go("metadata-dir-missing", lambda: shutil.rmtree(os.path.join(work, "Metadata")))
    go("stray-iwa-short", lambda: open(os.path.join(work, "stray.iwa"), "wb").write(b"\x00"))
    go("stray-iwa-empty", lambda: open(os.path.join(work, "stray.iwa"), "wb").close())
    go("stray-iwa-framed-garbage", lambda: open(os.path.join(work, "stray.iwa"), "wb").write(b"\x00\x03\x00\x00abc"))
    go("stray-dir", lambda: os.makedirs(os.path.join(work, "Data", "sub", "sub2")))
    def stray(rel, data):
        os.makedirs(os.path.dirname(os.path.join(work, rel)) or work, exist_ok=True)
        with open(os.path.join(work, rel), "wb") as f:
            f.write(data)
    # stray members by name: the marker of an encrypted document, hidden files, a second Index.zip, files where folders are expected
    for rel in (".iwph", "Index/.iwph", "Metadata/.iwph", "Data/.iwph", "Data/sub/.iwph", ".DS_Store", "Data/.DS_Store", "Index/Index.zip", "Data/Index.zip",
                "extra/Index.zip", "Index/Document.iwa.bak", "preview.jpg", "Metadata/.hidden.plist"):
        for dname, data in (("empty", b""), ("x", b"x"), ("pk", b"PK\x05\x06" + b"\0" * 18)):
            if os.path.exists(os.path.join(src, rel)):
                continue
            go(f"stray-{rel}-{dname}", lambda rel=rel, data=data: stray(rel, data))
    go("iwph-in-index", lambda: _append_member(os.path.join(work, idx), ".iwph", b"x") if idx else None)
    shutil.rmtree(work, ignore_errors=True)
    rec.sample({"package_source": spec["source"], "index": idx})


def _append_member(zpath, name, data):
    with zipfile.ZipFile(zpath, "a") as z:
        z.writestr(name, data)


def run_shard(spec, rec):
    if "cases" in spec:
        for c in spec["cases"]:
            replay(c, rec)
        return
    {"member": run_member, "zip": run_zip, "zipfield": run_zipfield, "path": run_path, "package": run_package}[spec["part"]](spec, rec)


def replay(case, rec):
    """Re-create exactly the faulted container of `case` and open it again."""
    from vf.gen import docs
    scratch = docs.scratch_dir()
    part = case["part"]
    out = os.path.join(scratch, "replay17.numbers")
    if part == "member":
        src = source_path(case["source"], scratch, case["seed"])
        data = as_zip_bytes(src)
        zin = zipfile.ZipFile(io.BytesIO(data))
        members = [(n, zin.read(n)) for n in zin.namelist() if not n.endswith("/")]
        name, fault = case["member"], case["fault"]
        if name == "+":
            extra = {"extra-iwph": {".iwph": b"x"}, "extra-junk-iwa": {"Index/Junk.iwa": b"\x00\x03\x00\x00abc"},
                     "extra-junk-iwa-short": {"Index/Junk.iwa": b"\x00"}, "extra-junk-empty-iwa": {"Index/Junk.iwa": b""}}[fault]
            write_zip(out, members, extra=extra)
            classify_open(out, rec, case, "member")
        elif "!" in name:
            outer, inner_name = name.split("!", 1)
            b = dict(members)[outer]
            inner = zipfile.ZipFile(io.BytesIO(b))
            imembers = [(m, inner.read(m)) for m in inner.namelist()]
            fb = dict(member_faults(dict(imembers)[inner_name]))[fault]
            buf = io.BytesIO()
            with zipfile.ZipFile(buf, "w") as z:
                for m2, mb2 in imembers:
                    z.writestr(m2, fb if m2 == inner_name else mb2)
            write_zip(out, [(x, buf.getvalue() if x == outer else xb) for x, xb in members])
            classify_open(out, rec, case, "member")
        elif fault.startswith("plist-"):
            fb = dict(PLIST_FAULTS)[fault[6:]]
            write_zip(out, [(m, fb if m == name else mb) for m, mb in members])
            classify_open(out, rec, case, "plist")
        elif fault.startswith("innerzip-"):
            b = dict(members)[name]
            fb = {"empty": b"", "garbage": b"PK\x03\x04garbage", "truncated": b[: len(b) // 2]}[fault[9:]]
            write_zip(out, [(m, fb if m == name else mb) for m, mb in members])
            classify_open(out, rec, case, "member")
        else:
            fb = dict(member_faults(dict(members)[name]))[fault]
            write_zip(out, [(m, fb if m == name else mb) for m, mb in members])
            classify_open(out, rec, case, "member")
    elif part in ("truncate", "bitflip", "mangle"):
        src = source_path(case["source"], scratch, case["seed"])
        data = as_zip_bytes(src)
        if part == "truncate":
            b = data[:case["at"]]
        elif part == "bitflip":
            b = bytearray(data)
            for p_, bit in zip(case["pos"], case["bits"]):
                b[p_] ^= 1 << bit
        else:
            cd, eocd = zip_landmarks(data)
            b = {"append": data + b"junk" * 10, "prepend": b"junk" + data, "zero-head": bytes(64) + data[64:],
                 "zero-tail": data[:-64] + bytes(64), "zero-cd": data[:cd] + bytes(len(data) - cd) if cd else data}[case["how"]]
        with open(out, "wb") as f:
            f.write(b)
        classify_open(out, rec, case, "truncate" if part != "bitflip" else "bitflip")
    elif part == "zipfield":
        src = source_path(case["source"], scratch, case["seed"])
        data = as_zip_bytes(src)
        rng = random.Random(f"C17-zipfield-{case['source']}-{case['seed']}")
        for desc, b in zipfield_faults(data, rng, case.get("per_entry", 2)):
            if all(desc[k] == case[k] for k in ("entry", "where", "field", "value")):
                with open(out, "wb") as f:
                    f.write(b)
                classify_open(out, rec, case, "zipfield")
                break
    elif part == "path":
        run_path({"seed": 0, "tier": "quick"}, rec)
    elif part == "package":
        run_package({"source": case["source"], "seed": case["seed"], "tier": "quick"}, rec)
    rec.case(("replay", str(case)[:100]))
