"""C06 - what is read does not depend on meaning-preserving choices of file layout.

Metamorphic: a document D and a rewrite R(D) that changes only storage layout (ref/package.py
operates on the decoded messages and re-emits the container itself) must be read as the same
document: snapshot(D) == snapshot(R(D)), tables matched by position and name.  Rewrites,
singly and in random compositions of 2-4: permute every TableDataList's entries (reverse,
rotate, random), re-chunk every IWA stream (random cuts, stored chunks), reorder zip members
and switch stored/deflated, single file <-> package folder, narrow <-> wide cell offsets where
representable, add header records for rows that have no storage record, and (library-written
files) drop the storage record of empty rows with/without their header record.
Plus two monitors on every read of a valid file: the *silent fallback* monitor (a KeyError
leaving DataLists.lookup_value while a text cell is being built = text degrading to '') and
the explicit *row oracle*: the row reported at tileid*256 + tile_row_index must be the one
decoded (by ref/cellrec.py) from that record.
"""
from __future__ import annotations

import os
import random
import shutil
import warnings

ID = "C06"
LEVEL = "exploration"
SUITE_UNDER_MONITORS = True  # thorough tier: the unedited repository tests run with this property's contracts loaded
SUITE_CONTRACTS = ("datalist_key",)
CONTRACTS = ("datalist_key", "record_decode")
REACH = {"DataLists.add_table": "DataLists.add_table", "DataLists.lookup_value": "DataLists.lookup_value", "_NumbersModel.row_storage_map": "row_storage_map",
         "get_storage_buffers_for_row": "get_storage_buffers_for_row", "_NumbersModel.storage_buffer": "storage_buffer", "IWork._read_objects_from_package": "_read_objects_from_package",
         "IWork._read_objects_from_zipfile": "_read_objects_from_zipfile", "_NumbersModel.table_string": "table_string"}
ASSUMPTIONS = ["rewrites are applied only where representable (stated per case); the rewriter never touches keys, values, counts - only what the property calls layout",
               "library-written files store an explicit empty record for every cell of every row; turning explicit empty records into absent ones is applied to whole empty rows only (a storage record of an empty row vs. none)",
               "ref/iwa.py / ref/cellrec.py readings of the formats (validated on the fixture corpus)"]
OPS = ["perm-reverse", "perm-rotate", "perm-random", "rechunk", "zip-order", "zip-stored", "zip-deflated", "to-package", "to-file", "to-wide", "to-narrow", "add-empty-row-headers",
       "drop-empty-rows-keep-header", "drop-empty-rows-and-header", "tile-order", "row-record-order"]


def rule(tier):
    return ("cases = (document, rewrite composition): every readable fixture + template and API-generated documents x each single rewrite of "
            + ", ".join(OPS) + " and random compositions of 2-4; the unmodified fixtures are additionally judged by the row oracle and the fallback monitor. "
            "distinct = distinct (document, rewrite sequence); non-trivial = the rewrite changed at least one byte of the container")


def floors(tier):
    return {"evaluations": 400 if tier == "quick" else 4000, "distinct": 380 if tier == "quick" else 3800,
            "counters": {"tables_with_tile_references_permuted": 2, "tiles_with_row_records_permuted": 50, "rewrites_compared": 380, "lists_permuted": 800, "rows_offsets_converted": 2000, "empty_row_headers_added": 10, "empty_rows_dropped": 100,
                         "package_form_reads": 40, "rechunked_documents": 60, "row_oracle_rows": 5000, "row_oracle_tables": 100, "text_cells_built": 8000,
                         "contract:datalist_key.lookup_value": 25000}}


def plan(tier, seed):
    from vf import corpus
    ok, _ = corpus.readable_fixtures()
    ok = sorted(ok, key=lambda p: -os.path.getsize(p) if os.path.isfile(p) else 0)
    specs = []
    per = 6 if tier == "quick" else 60
    for p in ok:
        specs.append({"part": "fixture", "path": p, "n": per, "tier": tier, "seed": seed})
    n = 40 if tier == "quick" else 300
    k = 8 if tier == "quick" else 30
    for i in range(k):
        specs.append({"part": "generated", "n": n // k, "stream": i, "per": 4 if tier == "quick" else 12, "tier": tier, "seed": seed})
    kk = 6
    paths = corpus.fixture_paths()
    for i in range(kk):
        specs.append({"part": "rows", "paths": paths[i::kk], "tier": tier, "seed": seed})
    return specs


# ---------------------------------------------------------------------------------------
def snap(path, rec=None):
    from numbers_parser import Document
    from vf import nsan
    from vf import snapshot as S
    nsan.pop_local("datalist_keyerrors")
    with warnings.catch_warnings():
        warnings.simplefilter("ignore")
        doc = Document(path)
        s = S.document_snapshot(doc, content=True)
    ke = nsan.pop_local("datalist_keyerrors") or []
    return s, ke, doc


def real_fallbacks(ke, pkg, rec):
    """Keep only the KeyErrors for which the reference reading *does* find an entry carrying that key
    in that table's list (a key that has no entry anywhere is a dangling id of the file, not a fallback)."""
    out = []
    for table_id, key, listname in ke:
        o = pkg.objs.get(table_id)
        if o is None or key is None:
            rec.count("keyerrors_without_key_or_table")
            continue
        ref = getattr(o.msg.base_data_store, listname, None)
        lst = pkg.objs.get(ref.identifier) if ref is not None else None
        if lst is not None and any(e.key == key for e in lst.msg.entries):
            out.append((table_id, key, listname))
        else:
            rec.count("dangling_keys_in_file")
    return out


def apply_rewrite(pkg, ops, rng, rec):
    """Apply layout rewrites to pkg (in place); -> (emit kwargs, applied ops, counters)"""
    from vf.ref import package as P
    kw = {"rng": rng}
    applied = []
    for op in ops:
        if op.startswith("perm-"):
            n = P.permute_datalists(pkg, rng, op[5:])
            rec.count("lists_permuted", n)
            if n:
                applied.append(op)
        elif op == "rechunk":
            kw["rechunk"] = True
            applied.append(op)
        elif op == "zip-order":
            kw["shuffle_members"] = True
            applied.append(op)
        elif op == "zip-stored":
            kw["compression"] = "stored"
            applied.append(op)
        elif op == "zip-deflated":
            kw["compression"] = "mixed" if rng.random() < .5 else "deflated"
            applied.append(op)
        elif op == "to-package":
            kw["as_package"] = True
            applied.append(op)
        elif op == "to-file":
            kw["as_package"] = False
            applied.append(op)
        elif op in ("to-wide", "to-narrow"):
            done, skipped = P.convert_offsets(pkg, op == "to-wide")
            rec.count("rows_offsets_converted", done)
            rec.count("rows_offsets_not_representable", skipped)
            if done:
                applied.append(op)
        elif op == "tile-order":
            n = P.permute_tile_refs(pkg, rng)
            rec.count("tables_with_tile_references_permuted", n)
            if n:
                applied.append(op)
        elif op == "row-record-order":
            n = P.permute_row_infos(pkg, rng)
            rec.count("tiles_with_row_records_permuted", n)
            if n:
                applied.append(op)
        elif op == "add-empty-row-headers":
            n = P.add_empty_row_headers(pkg, rng, fraction=rng.choice([1.0, .5]))
            rec.count("empty_row_headers_added", n)
            if n:
                applied.append(op)
        elif op.startswith("drop-empty-rows"):
            n = P.drop_empty_row_infos(pkg, rng, keep_header=op.endswith("keep-header"))
            rec.count("empty_rows_dropped", n)
            if n:
                applied.append(op)
    return kw, applied


def library_written(pkg):
    """Every declared row of every table has a storage record (what the library writes)."""
    from vf.ref import package as P
    for o in pkg.objs.values():
        if type(o.msg).__name__ == "TableModelArchive":
            stored = 0
            for t in o.msg.base_data_store.tiles.tiles:
                to = pkg.objs.get(t.tile.identifier)
                if to is not None:
                    stored += len(to.msg.rowInfos)
            if stored != o.msg.number_of_rows:
                return False
    return True


def compare_case(src, ops, rseed, rec, case, base=None):
    """base: (snapshot, keyerrors) of the source if already taken."""
    from vf import snapshot as S
    from vf.gen import docs
    from vf.ref import package as P
    rng = random.Random(rseed)
    try:
        pkg = P.load(src)
    except Exception as e:  # noqa: BLE001
        rec.build_failure(f"reference loader: {type(e).__name__}")
        return
    if pkg.undecodable:
        rec.count("sources_with_undecodable_members")
    if "Metadata/Properties.plist" not in pkg.members:
        # the zip nests the package under a folder (issue-32): converting the container form would also have to re-root it
        ops = [op for op in ops if op not in ("to-package", "to-file")]
    if any(op.startswith("drop-empty-rows") for op in ops) and not library_written(pkg):
        ops = [op for op in ops if not op.startswith("drop-empty-rows")]
    if not ops:
        return
    try:
        kw, applied = apply_rewrite(pkg, ops, rng, rec)
    except Exception as e:  # noqa: BLE001
        import traceback
        rec.build_failure(f"rewriter: {type(e).__name__}: {traceback.format_exc()[-200:]}")
        return
    if not applied:
        rec.count("rewrites_not_applicable")
        return
    out = os.path.join(docs.scratch_dir(), f"c06-{rseed}.numbers")
    if os.path.isdir(out):
        shutil.rmtree(out)
    try:
        P.emit(pkg, out, **kw)
        if base is None:
            s0, ke0, _ = snap(src)
        else:
            s0, ke0 = base
        groups = set()
        for a in applied:
            groups.add("list-order" if a.startswith("perm") else "row-records" if a.startswith(("add-empty", "drop-empty")) else "record-order" if a in ("tile-order", "row-record-order") else "offsets" if a in ("to-wide", "to-narrow")
                       else "container" if a in ("to-package", "to-file") else "zip" if a.startswith("zip") else "chunking")
        fx = {"rewrite": "+".join(sorted(groups))}
        try:
            s1, ke1, _ = snap(out)
        except Exception as e:  # noqa: BLE001
            import traceback
            fr = "?"
            for fs in reversed(traceback.extract_tb(e.__traceback__)):
                if "/numbers_parser/" in fs.filename:
                    fr = fs.name
                    break
            rec.violation("rewritten_file_unreadable", {**fx, "exc": type(e).__name__, "frame": fr}, {"msg": str(e)[:300], "ops": applied}, case=case)
            return
        rec.count("rewrites_compared")
        if kw.get("as_package"):
            rec.count("package_form_reads")
        if kw.get("rechunk"):
            rec.count("rechunked_documents")
        d = S.diff(s0, s1, limit=8)
        if d:
            fieldname = d[0][0].split(".")[-1]
            empt = sum(1 for p_, a, b in d if b in ("", None) and a not in ("", None))
            rec.violation("layout_changes_what_is_read", {**fx, "field": fieldname, "degraded_to_empty": empt > 0},
                          {"ops": applied, "diffs": [(p_, repr(a)[:60], repr(b)[:60]) for p_, a, b in d[:5]], "source": os.path.basename(src)}, case=case)
        real = real_fallbacks(ke1, pkg, rec)
        if real:
            rec.violation("silent_fallback", {**fx, "what": "datalist-key-not-found"}, {"ops": applied, "n": len(real), "keys": [list(x) for x in real[:4]]}, case=case)
        if not d and "list-order" in groups:
            edit_twin(src, out, rseed, rec, case, fx, applied)
    finally:
        if os.path.isdir(out):
            shutil.rmtree(out, ignore_errors=True)
        elif os.path.exists(out):
            os.remove(out)


def edit_twin(src, out, rseed, rec, case, fx, applied):
    """The two layouts are the same document, so the same edits make the same document of both: new strings, a new number format
    and a new custom format given to two cells each (a value found again in a lookup list must resolve to its own key),
    then every table is read again on both open documents."""
    from numbers_parser import Document
    from vf import snapshot as S
    r4 = random.Random(rseed ^ 0xED17)
    script = []
    outcomes = []
    snaps = []
    for path in (src, out):
        r5 = random.Random(r4.random() if not script else script[0])
        if not script:
            script.append(r5.random())
            r5 = random.Random(script[0])
        res = []
        with warnings.catch_warnings():
            warnings.simplefilter("ignore")
            try:
                doc = Document(path)
                cf = None
                for sh in doc.sheets:
                    for t in sh.tables:
                        if t.num_rows < 2 or t.num_cols < 2:
                            continue
                        cells = [(r5.randrange(t.num_rows), r5.randrange(t.num_cols)) for _ in range(4)]
                        text = "twin " + str(r5.randrange(10 ** 6))
                        dp = r5.randint(5, 9)
                        for i, (r, c) in enumerate(cells):
                            try:
                                if i < 2:
                                    t.write(r, c, text)
                                else:
                                    t.write(r, c, 1234.5678 + i)
                                    if i == 2 or r5.random() < .5:
                                        if cf is None:
                                            cf = doc.add_custom_format(name="vf twin", type="number", num_decimals=3, show_thousands_separator=True)
                                        t.set_cell_formatting(r, c, "custom", format=cf)
                                    else:
                                        t.set_cell_formatting(r, c, "number", decimal_places=dp)
                                res.append("ok")
                            except Exception as e:  # noqa: BLE001
                                res.append(type(e).__name__)
                        (r, c) = cells[3]
                        try:
                            if cf is None:
                                cf = doc.add_custom_format(name="vf twin", type="number", num_decimals=3, show_thousands_separator=True)
                            t.set_cell_formatting(r, c, "custom", format=cf)
                            res.append("ok")
                        except Exception as e:  # noqa: BLE001
                            res.append(type(e).__name__)
                snaps.append(S.document_snapshot(doc, content=True))
            except Exception as e:  # noqa: BLE001
                res.append("document:" + type(e).__name__)
                snaps.append(None)
        outcomes.append(res)
    rec.count("edit_twins_compared")
    if outcomes[0] != outcomes[1]:
        i = next((k for k, (a, b) in enumerate(zip(outcomes[0], outcomes[1])) if a != b), -1)
        rec.violation("layout_changes_what_an_edit_does", {**fx, "what": "outcome"}, {"ops": applied, "source": os.path.basename(src), "first": outcomes[0][i] if i >= 0 else len(outcomes[0]), "rewritten": outcomes[1][i] if i >= 0 else len(outcomes[1])}, case=case)
        return
    if snaps[0] is None or snaps[1] is None:
        return
    d = S.diff(snaps[0], snaps[1], limit=8)
    if d:
        rec.violation("layout_changes_what_an_edit_does", {**fx, "what": d[0][0].split(".")[-1]},
                      {"ops": applied, "diffs": [(p_, repr(a)[:60], repr(b)[:60]) for p_, a, b in d[:5]], "source": os.path.basename(src)}, case=case)


def run_fixture(spec, rec):
    rng = random.Random(f"C06-fx-{spec['seed']}-{os.path.basename(spec['path'])}")
    src = spec["path"]
    try:
        base = snap(src)[:2]
    except Exception as e:  # noqa: BLE001
        rec.note(f"{os.path.basename(src)}: unreadable ({type(e).__name__})")
        return
    # the singles rotate over the fixtures so that every rewrite is applied to every fixture over a few seeds; compositions are random
    singles = OPS[:]
    rng.shuffle(singles)
    plans = [[op] for op in singles[: max(3, spec["n"] // 2)]]
    while len(plans) < spec["n"]:
        plans.append(rng.sample(OPS, rng.randint(2, 4)))
    for ops in plans:
        rseed = rng.randrange(1 << 40)
        case = {"part": "rewrite", "path": src, "ops": ops, "rseed": rseed}
        compare_case(src, ops, rseed, rec, case, base=base)
        rec.case((os.path.basename(src), tuple(ops)))
        for op in ops:
            rec.hist("rewrite_op", op)
    rec.sample({"fixture": os.path.basename(src), "rewrites": plans[:3]})


def run_generated(spec, rec):
    from vf.gen import docs
    rng = random.Random(f"C06-gen-{spec['seed']}-{spec['stream']}")
    d = docs.scratch_dir()
    for i in range(spec["n"]):
        dseed = rng.randrange(1 << 40)
        r2 = random.Random(dseed)
        recipe = docs.rand_recipe(r2, size=r2.choice(["small", "small", "tiles", "wide"]))
        src = os.path.join(d, f"c06-src-{dseed}.numbers")
        try:
            doc, _ = docs.build(recipe)
            docs.save(doc, src)
        except Exception as e:  # noqa: BLE001
            rec.build_failure(f"generated document: {type(e).__name__}")
            continue
        try:
            base = snap(src)[:2]
            for j in range(spec["per"]):
                ops = [rng.choice(OPS)] if j % 2 == 0 else rng.sample(OPS, rng.randint(2, 4))
                rseed = rng.randrange(1 << 40)
                case = {"part": "generated-rewrite", "dseed": dseed, "ops": ops, "rseed": rseed}
                compare_case(src, ops, rseed, rec, case, base=base)
                rec.case(("gen", dseed, tuple(ops)))
                for op in ops:
                    rec.hist("rewrite_op", op)
        finally:
            if os.path.exists(src):
                os.remove(src)
    rec.sample({"generated_documents": spec["n"]})


def run_rows(spec, rec):
    """Explicit row oracle + fallback monitor on the *unmodified* fixtures."""
    from numbers_parser import Document
    from vf import corpus, nsan
    from vf.ref import cellrec
    from vf.ref import package as P
    for p in spec["paths"]:
        nsan.pop_local("datalist_keyerrors")
        doc, ws, exc = corpus.open_doc(p)
        if doc is None:
            continue
        case = {"part": "rows", "path": p}
        try:
            pkg = P.load(p)
        except Exception as e:  # noqa: BLE001
            rec.note(f"{os.path.basename(p)}: reference loader failed ({type(e).__name__})")
            continue
        ke = nsan.pop_local("datalist_keyerrors") or []
        tables = {}
        for s in doc.sheets:
            for t in s.tables:
                tables[t._table_id] = (s, t)
                for row in t.rows():
                    rec.count("text_cells_built", sum(1 for c in row if type(c).__name__ == "TextCell"))
        for ident, o in pkg.objs.items():
            if type(o.msg).__name__ != "TableModelArchive" or ident not in tables:
                continue
            s, t = tables[ident]
            rec.count("row_oracle_tables")
            ncols = o.msg.number_of_columns
            bad_rows = []
            for tl in o.msg.base_data_store.tiles.tiles:
                to = pkg.objs.get(tl.tile.identifier)
                if to is None:
                    continue
                for r in to.msg.rowInfos:
                    g = tl.tileid * 256 + r.tile_row_index
                    offs = P.row_offsets(r) or []
                    mul = 4 if r.has_wide_offsets else 1
                    buf = bytes(r.cell_storage_buffer)
                    if g >= t.num_rows:
                        continue
                    rec.count("row_oracle_rows")
                    kinds = []
                    for c in range(min(ncols, t.num_cols)):
                        want = "absent"
                        if c < len(offs) and offs[c] >= 0:
                            try:
                                want = cellrec.TYPES.get(cellrec.decode(buf[offs[c] * mul:])["type"], "?")
                            except cellrec.RecordError:
                                want = "?"
                        cell = t._data[g][c]
                        got = {"EmptyCell": "empty", "NumberCell": "number/currency", "TextCell": "text", "DateCell": "date", "BoolCell": "bool", "DurationCell": "duration",
                               "ErrorCell": "error", "RichTextCell": "rich", "BulletedTextCell": "rich", "MergedCell": "merged"}.get(type(cell).__name__, "?")
                        if want in ("number", "currency"):
                            want = "number/currency"
                        if want == "absent":
                            want = "empty"
                        if got == "merged" or want == "?":
                            continue
                        if got != want:
                            kinds.append((c, got, want))
                    if kinds:
                        bad_rows.append((g, kinds[:3]))
            if bad_rows:
                first = bad_rows[0][0]
                rec.violation("row_not_at_declared_index", {"rows_affected": "all-after-a-gap" if len(bad_rows) > 1 else "one"},
                              {"fixture": os.path.basename(p), "table": t.name, "first_row": first, "examples": bad_rows[:3], "n_rows": len(bad_rows)}, case=case)
        real = real_fallbacks(ke, pkg, rec)
        if real:
            rec.violation("silent_fallback", {"rewrite": "none", "what": "datalist-key-not-found"}, {"fixture": os.path.basename(p), "n": len(real), "keys": [list(x) for x in real[:4]]}, case=case)
        rec.case(("rows", os.path.basename(p)))
    rec.sample({"row_oracle_fixtures": [os.path.basename(p) for p in spec["paths"][:4]]})


def run_shard(spec, rec):
    if "cases" in spec:
        for c in spec["cases"]:
            replay(c, rec)
        return
    {"fixture": run_fixture, "generated": run_generated, "rows": run_rows}[spec["part"]](spec, rec)


def replay(case, rec):
    p = case.get("part")
    if p == "rewrite":
        compare_case(case["path"], case["ops"], case["rseed"], rec, case)
        rec.case(("replay", str(case)[:80]))
    elif p == "generated-rewrite":
        from vf.gen import docs
        r2 = random.Random(case["dseed"])
        recipe = docs.rand_recipe(r2, size=r2.choice(["small", "small", "tiles", "wide"]))
        src = os.path.join(docs.scratch_dir(), "c06-replay-src.numbers")
        doc, _ = docs.build(recipe)
        docs.save(doc, src)
        compare_case(src, case["ops"], case["rseed"], rec, case)
        rec.case(("replay", str(case)[:80]))
    elif p == "rows":
        run_rows({"paths": [case["path"]]}, rec)
