"""C03 - any edit history leaves each table equal to a plain grid, before and after save.

Event log at the API boundary replayed online against ref/grid.py (a list of lists), in
lock-step: after *every* operation the addressed table is compared with the model
(num_rows, num_cols, rows(values_only=True), every cell.row/cell.col, the quiescent
table_shape invariant incl. the model's own counts), all other open tables are compared by
shape, and at checkpoints in full.  Save must not change the open document, may be
repeated, and the reopened file must equal the grid.  Edits to one table/document never
show in another.
 (a) bounded-exhaustive short histories over a concrete ~24-operation alphabet on tiny tables
 (b) random long histories over up to 3 simultaneously open documents x sheets x tables,
     incl. loaded fixtures, tables straddling the 256-row tile boundary / > 256 columns,
     add_table/add_sheet/renames in the middle, saves at random points
 (c) hostile arguments (count <= 0, oversized, start out of range): must raise
     IndexError/ValueError and change nothing, or behave like the clamped operation.
"""
from __future__ import annotations

import itertools
import os
import random
import shutil
import warnings

from vf.gen import values as V
from vf.ref.grid import Grid

ID = "C03"
LEVEL = "exploration"
CONTRACTS = ()
REACH = {"Table.write": "Table.write", "Table.add_row": "Table.add_row", "Table.add_column": "Table.add_column", "Table.delete_row": "Table.delete_row",
         "Table.delete_column": "Table.delete_column", "Document.save": "Document.save", "Sheet.add_table": "Sheet.add_table", "Document.add_sheet": "Document.add_sheet",
         "_NumbersModel.recalculate_table_data": "recalculate_table_data"}
ASSUMPTIONS = ["ref/grid.py (list of lists; insert before index, delete [start, start+n), append/delete at end when start is None, auto-growth on write) is the plain grid the statement refers to",
               "count 0 is in the contract and must be a no-op; deleting all rows/columns is not generated; hostile arguments have the weak expectation stated in DESIGN C03/L",
               "written values are drawn from C01's exactly-representable domains so that value equality is exact"]


def rule(tier):
    return ("(a) every history of length <= 3 over a 24-operation alphabet on a 2x2 table and of length <= 2 on 1x1 and 3x2 tables"
            + (", plus length 4 over a reduced 11-operation alphabet on all three" if tier == "thorough" else "")
            + " (every 9th also saved and reopened); (b) random histories of 30-200 operations over 1-3 open documents x 1-3 sheets x 1-3 tables with saves; "
              "(c) hostile-argument operations. distinct = distinct (initial shape, operation-kind sequence incl. arguments); non-trivial = length >= 2")


def floors(tier):
    return {"evaluations": 9_000 if tier == "quick" else 50_000, "distinct": 9_000 if tier == "quick" else 50_000,
            "counters": {"ops_checked": 35_000, "lockstep_compares": 60_000, "saves": 300, "reopened_tables_compared": 300, "second_saves": 20,
                         "hostile_ops": 300, "multi_document_histories": 20, "tile_boundary_tables": 5, "wide_tables": 3, "fixture_starts": 5,
                         "cross_table_checks": 2000, "inserts_with_default": 500, "reloaded_merged_starts": 15, "lookups_by_name": 3000, "sparse_tall_tables": 6, "renames_onto_a_freed_name": 20}}


def alphabet(R, C):
    a = []
    for (r, c, v) in ((0, 0, 1), (R - 1, C - 1, "x"), (R, 0, 2), (0, C, "y")):
        a.append({"op": "write", "r": r, "c": c, "v": V.enc(v)})
    for which in ("add_row", "add_column"):
        for n, start, default in ((1, None, None), (2, None, None), (1, 0, None), (1, "last", None), (2, 0, None), (1, 0, 7)):
            op = {"op": which, "n": n}
            if start is not None:
                op["start"] = start
            if default is not None:
                op["default"] = V.enc(default)
            a.append(op)
    for which in ("delete_row", "delete_column"):
        for n, start in ((1, None), (1, 0), (1, "last"), (2, None)):
            op = {"op": which, "n": n}
            if start is not None:
                op["start"] = start
            a.append(op)
    return a  # 4 + 12 + 8 = 24


def reduced(a):
    keep = [0, 2, 3, 4, 6, 9, 10, 12, 16, 17, 20]
    return [a[i] for i in keep]


SHAPES = [(2, 2), (1, 1), (3, 2)]


def plan(tier, seed):
    specs = []
    # (a) exhaustive: enumerate index tuples; shard by first index
    for si, (R, C) in enumerate(SHAPES):
        L = 3 if (R, C) == (2, 2) else 2
        for first in range(24):
            specs.append({"part": "exh", "shape": si, "first": first, "L": L, "alpha": "full", "tier": tier, "seed": seed})
        if tier == "thorough":
            for first in range(11):
                specs.append({"part": "exh", "shape": si, "first": first, "L": 4, "alpha": "reduced", "tier": tier, "seed": seed})
    n = 160 if tier == "quick" else 4000
    k = 16 if tier == "quick" else 64
    for i in range(k):
        specs.append({"part": "random", "n": n // k, "stream": i, "tier": tier, "seed": seed})
    specs.append({"part": "hostile", "tier": tier, "seed": seed})
    return specs


# ---------------------------------------------------------------------------------------
class TableRef:
    def __init__(self, doc_i, sheet_i, table_i, table, grid):
        self.doc_i, self.sheet_i, self.table_i = doc_i, sheet_i, table_i
        self.table = table
        self.grid = grid
        self.trusted_values = True
        self.merged_rect = None  # (r0, c0, r1, c1) of a merged region the table came with: C12's business, left alone here
        self.sparse_from = None  # writes only at or below this row, no structural edits: the blocks above stay empty

    def where(self):
        return [self.doc_i, self.sheet_i, self.table_i]


def table_shape_violations(table):
    """Quiescent structural invariant of a live Table (the table_shape contract)."""
    bad = []
    data = table._data
    if len(data) != table.num_rows:
        bad.append(f"len(_data)={len(data)} != num_rows={table.num_rows}")
    for r, row in enumerate(data):
        if len(row) != table.num_cols:
            bad.append(f"row {r} has {len(row)} cells != num_cols={table.num_cols}")
            break
        for c, cell in enumerate(row):
            if cell.row != r or cell.col != c:
                bad.append(f"cell at [{r}][{c}] reports ({cell.row},{cell.col})")
                return bad
    try:
        m = table._model
        if m.number_of_rows(table._table_id) != table.num_rows or m.number_of_columns(table._table_id) != table.num_cols:
            bad.append(f"model counts ({m.number_of_rows(table._table_id)},{m.number_of_columns(table._table_id)}) != table ({table.num_rows},{table.num_cols})")
    except Exception as e:  # noqa: BLE001
        bad.append(f"model counts unreadable: {type(e).__name__}")
    return bad


def compare_table(tr: TableRef, rec, case, log, view="open", table=None, full=True, xf=None):
    """-> True if equal."""
    t = table if table is not None else tr.table
    g = tr.grid
    xf = xf or {}
    rec.count("lockstep_compares")
    if (t.num_rows, t.num_cols) != (g.rows, g.cols):
        rec.violation("dimensions", {"view": view, **xf}, {"table": tr.where(), "got": [t.num_rows, t.num_cols], "want": [g.rows, g.cols], "log": log.export(6) if log else None}, case=case)
        return False
    if not full:
        return True
    bad = table_shape_violations(t)
    if bad:
        rec.violation("table_shape", {"view": view, "what": bad[0].split(" ")[0][:20], **xf}, {"table": tr.where(), "problems": bad[:3], "log": log.export(6) if log else None}, case=case)
        return False
    vals = t.rows(values_only=True)
    for r in range(g.rows):
        gr = g.d[r]
        vr = vals[r]
        for c in range(g.cols):
            want = gr[c]
            got = vr[c]
            if want is None and got is None:
                continue
            if not V.same_value(want, got):
                rec.violation("cell_value", {"view": view, "want_type": type(want).__name__, "got_type": type(got).__name__, **xf},
                              {"table": tr.where(), "r": r, "c": c, "want": repr(want)[:80], "got": repr(got)[:80], "log": log.export(6) if log else None}, case=case)
                return False
    return window_readouts(tr, t, rec, case, log, view, xf)


def window_readouts(tr, t, rec, case, log, view, xf):
    """The other read-outs of the same grid: iter_rows / iter_cols over windows (bounds of 0, the last index, None, a middle
    window) and cell(r, c) / cell("A1") at the window's corners must report exactly the model's window."""
    g = tr.grid
    if g.rows == 0 or g.cols == 0 or g.rows * g.cols > 4096:
        return True
    k = rec.counters.get("lockstep_compares", 0)
    R, C = g.rows - 1, g.cols - 1
    wins = [(0, 0, 0, 0), (None, 0, None, None), (None, None, None, 0), (R, R, C, C), (R // 2, None, C // 2, None), (0, R // 2, 0, C // 2), (None, None, None, None)]
    for (r0, r1, c0, c1) in (wins[k % len(wins)], wins[(k * 3 + 1) % len(wins)]):
        a0, a1 = (0 if r0 is None else r0), (R if r1 is None else r1)
        b0, b1 = (0 if c0 is None else c0), (C if c1 is None else c1)
        want_rows = [tuple(g.d[r][b0:b1 + 1]) for r in range(a0, a1 + 1)]
        want_cols = [tuple(g.d[r][c] for r in range(a0, a1 + 1)) for c in range(b0, b1 + 1)]
        for api, want in (("iter_rows", want_rows), ("iter_cols", want_cols)):
            rec.count("window_readouts")
            try:
                got = [tuple(x) for x in getattr(t, api)(min_row=r0, max_row=r1, min_col=c0, max_col=c1, values_only=True)]
            except Exception as e:  # noqa: BLE001
                rec.violation("window_readout", {"view": view, "api": api, "how": "raised " + type(e).__name__, **xf},
                              {"table": tr.where(), "window": [r0, r1, c0, c1], "error": repr(e)[:200], "log": log.export(6) if log else None}, case=case)
                return False
            ok = len(got) == len(want) and all(len(x) == len(y) and all((p is None and q is None) or V.same_value(p, q) for p, q in zip(x, y)) for x, y in zip(want, got))
            if not ok:
                rec.violation("window_readout", {"view": view, "api": api, "how": "shape" if [len(x) for x in got] != [len(x) for x in want] else "values", **xf},
                              {"table": tr.where(), "window": [r0, r1, c0, c1], "want_shape": [len(want), len(want[0]) if want else 0], "got_shape": [len(got), len(got[0]) if got else 0],
                               "log": log.export(6) if log else None}, case=case)
                return False
        for (r, c) in ((a0, b0), (a1, b1)):
            rec.count("cell_readouts")
            for how, args in (("rowcol", (r, c)), ("a1", (_a1(r, c),))):
                try:
                    got = t.cell(*args).value
                except Exception as e:  # noqa: BLE001
                    rec.violation("window_readout", {"view": view, "api": "cell", "how": "raised " + type(e).__name__, **xf}, {"table": tr.where(), "at": [r, c], "form": how, "error": repr(e)[:200]}, case=case)
                    return False
                want = g.d[r][c]
                if not ((want is None and got is None) or V.same_value(want, got)):
                    rec.violation("window_readout", {"view": view, "api": "cell", "how": "values", **xf}, {"table": tr.where(), "at": [r, c], "form": how, "want": repr(want)[:80], "got": repr(got)[:80]}, case=case)
                    return False
    return True


def _a1(r, c):
    s = ""
    c += 1
    while c:
        c, m = divmod(c - 1, 26)
        s = chr(65 + m) + s
    return f"{s}{r + 1}"


def resolve(op, grid):
    """'last' placeholders -> concrete indices for the current size."""
    op = dict(op)
    if op.get("start") == "last":
        op["start"] = (grid.rows if "row" in op["op"] else grid.cols) - 1
    return op


def in_contract(op, grid):
    k = op["op"]
    if k in ("delete_row", "delete_column"):
        size = grid.rows if "row" in k else grid.cols
        n = op.get("n", 1)
        st = op.get("start")
        if n < 0 or n >= size:
            return False
        if st is not None and (st < 0 or st + n > size):
            return False
    if k in ("add_row", "add_column"):
        size = grid.rows if "row" in k else grid.cols
        st = op.get("start")
        if op.get("n", 1) < 0 or (st is not None and not (0 <= st < size)):
            return False
    return True


def apply_to_model(op, grid):
    k = op["op"]
    if k == "write":
        grid.write(op["r"], op["c"], V.dec(op["v"]))
    elif k in ("add_row", "add_column"):
        getattr(grid, k)(op.get("n", 1), op.get("start"), V.dec(op["default"]) if "default" in op else None)
    elif k in ("delete_row", "delete_column"):
        getattr(grid, k)(op.get("n", 1), op.get("start"))


def apply_to_table(op, table):
    k = op["op"]
    if k == "write":
        return table.write(op["r"], op["c"], V.dec(op["v"]))
    kw = {}
    if "n" in op:
        kw["num_rows" if "row" in k else "num_cols"] = op["n"]
    if "start" in op:
        kw["start_row" if "row" in k else "start_col"] = op["start"]
    if "default" in op:
        kw["default"] = V.dec(op["default"])
    return getattr(table, k)(**kw)


def save_and_check(doc, doc_i, trs, rec, case, log, package=False):
    """save; the open document must be unchanged; the reopened file must equal the grids."""
    from numbers_parser import Document
    from vf.gen import docs
    path = os.path.join(docs.scratch_dir(), f"c03-{doc_i}.numbers")
    if os.path.isdir(path):
        shutil.rmtree(path)
    r, _ = log.call({"op": "save", "doc": doc_i, "package": package}, lambda: docs.save(doc, path, package=package))
    rec.count("saves")
    ok = True
    if r["outcome"] == "exc":
        rec.violation("save_raised", {"exc": r["exc_type"]}, {"msg": r["exc_msg"], "log": log.export(8)}, case=case)
        return False
    for tr in trs:
        if not compare_table(tr, rec, case, log, view="open-after-save"):
            ok = False
    try:
        with warnings.catch_warnings():
            warnings.simplefilter("ignore")
            doc2 = Document(path)
        for tr in trs:
            try:
                t2 = doc2.sheets[tr.sheet_i].tables[tr.table_i]
            except Exception as e:  # noqa: BLE001
                rec.violation("reopened_table_missing", {"exc": type(e).__name__}, {"table": tr.where()}, case=case)
                ok = False
                continue
            rec.count("reopened_tables_compared")
            if not compare_table(tr, rec, case, log, view="reloaded", table=t2):
                ok = False
    except Exception as e:  # noqa: BLE001
        rec.violation("reopen_raised", {"exc": type(e).__name__}, {"msg": str(e)[:200], "log": log.export(8)}, case=case)
        ok = False
    finally:
        if os.path.isdir(path):
            shutil.rmtree(path, ignore_errors=True)
        elif os.path.exists(path):
            os.remove(path)
    return ok


def run_short(shape, ops, rec, case, save):
    from numbers_parser import Document
    from vf.events import EventLog
    R, C = shape
    with warnings.catch_warnings():
        warnings.simplefilter("ignore")
        doc = Document(num_rows=R, num_cols=C, num_header_rows=0, num_header_cols=0)
    tr = TableRef(0, 0, 0, doc.sheets[0].tables[0], Grid(R, C))
    log = EventLog()
    for op0 in ops:
        op = resolve(op0, tr.grid)
        if not in_contract(op, tr.grid):
            return None  # out of the enumerated domain (e.g. deleting the only row): not a case
        r, _ = log.call(op, lambda: apply_to_table(op, tr.table))
        rec.count("ops_checked")
        if "default" in op:
            rec.count("inserts_with_default")
        if r["outcome"] == "exc":
            rec.violation("in_contract_op_raised", {"op": op["op"], "exc": r["exc_type"]}, {"op": op, "msg": r["exc_msg"], "log": log.export(6)}, case=case)
            return False
        apply_to_model(op, tr.grid)
        if not compare_table(tr, rec, case, log):
            return False
    if save:
        if not save_and_check(doc, 0, [tr], rec, case, log):
            return False
    return True


def run_exh(spec, rec):
    R, C = SHAPES[spec["shape"]]
    a = alphabet(R, C)
    if spec["alpha"] == "reduced":
        a = reduced(a)
    L = spec["L"]
    n = 0
    lengths = range(1, L + 1) if spec["alpha"] == "full" else (L,)
    for ln in lengths:
        for tup in itertools.product(range(len(a)), repeat=ln - 1):
            idx = (spec["first"],) + tup
            ops = [a[i] for i in idx]
            n += 1
            case = {"part": "short", "shape": [R, C], "ops": ops, "save": n % 9 == 0}
            res = run_short((R, C), ops, rec, case, case["save"])
            if res is None:
                continue
            rec.case(("short", R, C, spec["alpha"], idx), nontrivial=ln >= 2)
    rec.sample({"shape": [R, C], "history": [a[spec["first"]]] + a[:2]})


# ---------------------------------------------------------------------------------------
FIXTURE_STARTS = ["test-1.numbers", "issue-3.numbers", "test-2.numbers", "test-save-1.numbers", "test-empty-rows.numbers", "simple-func.numbers"]


def rand_value(rng):
    c = rng.random()
    if c < .4:
        return rng.randrange(-1000, 1000)
    if c < .6:
        return rng.choice(["a", "b", "", "é\nx", "long " * 20, "7"] + V.EQUIVALENT[:10])
    if c < .7:
        return rng.random() < .5
    if c < .8:
        if rng.random() < .25:
            # doubles that take 16 or 17 digits to write down are numbers like any other
            return rng.choice([0.1 + 0.2, 1 / 3, 1.0000000000000002, 2 / 3, 1e16 / 3, -0.7000000000000001, 123456.78901234567])
        return rng.randrange(0, 10 ** 6) / 100.0
    if c < .9:
        d = V.rand_datetime(rng)
        return d if rng.random() < .4 else d.replace(microsecond=0)  # with and without a sub-second part
    return V.rand_timedelta(rng)


def run_random_history(case, rec):
    """case: {"rseed": int, "nops": int}; fully regenerated from the seed (replayable)."""
    from numbers_parser import Document
    from vf import corpus
    from vf.events import EventLog
    rng = random.Random(case["rseed"])
    log = EventLog()
    docs_ = []
    trs: list[TableRef] = []
    ndocs = rng.choice([1, 1, 2, 3])
    with warnings.catch_warnings():
        warnings.simplefilter("ignore")
        for di in range(ndocs):
            c = rng.random()
            if c < .15:
                fx = rng.choice(FIXTURE_STARTS)
                doc = Document(os.path.join(corpus.DATA, fx))
                docs_.append(doc)
                rec.count("fixture_starts")
                for si in range(len(doc.sheets)):
                    for ti in range(len(doc.sheets[si].tables)):
                        t = doc.sheets[si].tables[ti]
                        g = Grid(0, 0, t.rows(values_only=True))
                        trs.append(TableRef(di, si, ti, t, g))
            elif c < .27:
                # a loaded document that was written by the library and has a merged region (merges are stored differently
                # from Numbers' own files): tables added to it, and every edit next to the region, are still plain grids
                from vf.gen import docs as gdocs
                from vf.ref import a1
                R, Cn = rng.randint(3, 8), rng.randint(3, 6)
                d0 = Document(num_rows=R, num_cols=Cn, num_header_rows=0, num_header_cols=0)
                t0 = d0.sheets[0].tables[0]
                r0, c0 = rng.randrange(R - 1), rng.randrange(Cn - 1)
                r1, c1 = rng.randint(r0, R - 1), rng.randint(c0 + 1, Cn - 1)
                for _ in range(rng.randint(0, 6)):
                    rr, cc_ = rng.randrange(R), rng.randrange(Cn)
                    if not (r0 <= rr <= r1 and c0 <= cc_ <= c1) or (rr, cc_) == (r0, c0):
                        t0.write(rr, cc_, rand_value(rng))
                t0.merge_cells(a1.cell_name(r0, c0) + ":" + a1.cell_name(r1, c1))
                pth = os.path.join(gdocs.scratch_dir(), f"c03-merged-{case['rseed']}-{di}.numbers")
                try:
                    d0.save(pth)
                    doc = Document(pth)
                finally:
                    if os.path.exists(pth):
                        os.remove(pth)
                docs_.append(doc)
                rec.count("reloaded_merged_starts")
                t = doc.sheets[0].tables[0]
                tr0 = TableRef(di, 0, 0, t, Grid(0, 0, t.rows(values_only=True)))
                tr0.merged_rect = (r0, c0, r1, c1)
                trs.append(tr0)
            elif c < .33:
                # a tall table that is empty except far down: whole 256-row blocks of it hold nothing at all
                R, Cn = rng.choice([(520, 2), (700, 3), (600, 1), (1030, 2)])
                doc = Document(num_rows=R, num_cols=Cn, num_header_rows=0, num_header_cols=0)
                docs_.append(doc)
                tr0 = TableRef(di, 0, 0, doc.sheets[0].tables[0], Grid(R, Cn))
                tr0.sparse_from = rng.choice([256, 300, 512]) if R > 520 else 300
                trs.append(tr0)
                rec.count("sparse_tall_tables")
            else:
                if c < .41:
                    R, Cn = rng.choice([(255, 2), (256, 1), (257, 2), (250, 3)])
                    rec.count("tile_boundary_tables")
                elif c < .48:
                    R, Cn = rng.choice([(2, 256), (3, 255), (2, 257)])
                    rec.count("wide_tables")
                else:
                    R, Cn = rng.randint(1, 8), rng.randint(1, 6)
                hr, hc = min(R, rng.choice([0, 1])), min(Cn, rng.choice([0, 1]))
                doc = Document(num_rows=R, num_cols=Cn, num_header_rows=hr, num_header_cols=hc)
                docs_.append(doc)
                trs.append(TableRef(di, 0, 0, doc.sheets[0].tables[0], Grid(R, Cn)))
    if ndocs > 1:
        rec.count("multi_document_histories")
    # fixtures: a cell whose value does not survive a plain re-save is C02's business; find them once
    for di, doc in enumerate(docs_):
        mine = [tr for tr in trs if tr.doc_i == di]
        if not all(compare_table(tr, rec, case, log) for tr in mine):
            return False
    kinds = []
    nops = case["nops"]
    nsaves = 0
    freed = {}
    for step in range(nops):
        tr = rng.choice(trs)
        g = tr.grid
        if rng.random() < .3:
            # addressing a table by the names of its sheet and itself reaches that table and no other
            doc = docs_[tr.doc_i]
            rec.count("lookups_by_name")
            try:
                with warnings.catch_warnings():
                    warnings.simplefilter("ignore")
                    got = doc.sheets[doc.sheets[tr.sheet_i].name].tables[tr.table.name]
                other = getattr(got, "_table_id", None) != tr.table._table_id
            except Exception as e:  # noqa: BLE001
                rec.violation("lookup_by_name", {"what": "raised", "exc": type(e).__name__}, {"table": tr.where(), "name": tr.table.name, "msg": str(e)[:200], "log": log.export(6)}, case=case)
                return False
            if other:
                rec.violation("lookup_by_name", {"what": "other-table"}, {"table": tr.where(), "name": tr.table.name, "got": getattr(got, "name", None), "log": log.export(6)}, case=case)
                return False
            tr.table = got  # and the edits that follow go through what the lookup returned
        c = rng.random()
        op = None
        if tr.merged_rect is not None and .42 <= c < .8:
            c = rng.choice([.1, .83])  # no structural edits of a table with a merged region (C12): write beside it, or add a table
        if tr.sparse_from is not None and c < .8:
            c = .1
        if c < .42:
            if rng.random() < .12 and g.rows < 300 and g.cols < 270 and tr.merged_rect is None:
                r, cc = g.rows + rng.randint(0, 2), rng.randrange(g.cols) if rng.random() < .5 else g.cols + rng.randint(0, 1)
            else:
                r, cc = rng.randrange(g.rows), rng.randrange(g.cols)
            if tr.sparse_from is not None:
                r = rng.randrange(min(tr.sparse_from, g.rows - 1), g.rows)
            if tr.merged_rect is not None and tr.merged_rect[0] <= r <= tr.merged_rect[2] and tr.merged_rect[1] <= cc <= tr.merged_rect[3]:
                continue
            op = {"op": "write", "r": r, "c": cc, "v": V.enc(rand_value(rng))}
        elif c < .62:
            which = rng.choice(["add_row", "add_column"])
            size = g.rows if "row" in which else g.cols
            if size > (320 if "row" in which else 280):
                continue
            op = {"op": which}
            if rng.random() < .8:
                op["n"] = rng.choice([0, 1, 1, 1, 2, 3])
            if rng.random() < .6:
                op["start"] = rng.choice([0, size - 1, rng.randrange(size)])
            if rng.random() < .3:
                op["default"] = V.enc(rand_value(rng))
        elif c < .8:
            which = rng.choice(["delete_row", "delete_column"])
            size = g.rows if "row" in which else g.cols
            if size < 2:
                continue
            n = rng.choice([0, 1, 1, 1, 2])
            if n >= size:
                n = 1
            op = {"op": which, "n": n}
            if rng.random() < .6:
                op["start"] = min(size - 1, rng.choice([0, size - n, rng.randrange(0, size - n + 1)]))
        elif c < .86:
            # add a table or a sheet to the addressed document
            doc = docs_[tr.doc_i]
            if rng.random() < .5 and len(doc.sheets[tr.sheet_i].tables) < 3:
                R, Cn = rng.randint(1, 5), rng.randint(1, 4)
                # with explicit header counts (0 .. the size) or with the defaults: the shape asked for is the shape obtained
                hk = {} if rng.random() < .4 else {"num_header_rows": rng.randint(0, min(R, 2)), "num_header_cols": rng.randint(0, min(Cn, 2))}
                opx = {"op": "add_table", "doc": tr.doc_i, "sheet": tr.sheet_i, "num_rows": R, "num_cols": Cn, **hk}
                r_, t = log.call(opx, lambda: doc.sheets[tr.sheet_i].add_table(num_rows=R, num_cols=Cn, **hk))
                if r_["outcome"] == "exc":
                    rec.violation("in_contract_op_raised", {"op": "add_table", "exc": r_["exc_type"]}, {"msg": r_["exc_msg"]}, case=case)
                    return False
                trs.append(TableRef(tr.doc_i, tr.sheet_i, len(doc.sheets[tr.sheet_i].tables) - 1, t, Grid(R, Cn)))
                kinds.append("add_table")
            elif len(doc.sheets) < 3:
                R, Cn = rng.randint(1, 5), rng.randint(1, 4)
                opx = {"op": "add_sheet", "doc": tr.doc_i, "num_rows": R, "num_cols": Cn}
                r_, _ = log.call(opx, lambda: doc.add_sheet(num_rows=R, num_cols=Cn))
                if r_["outcome"] == "exc":
                    rec.violation("in_contract_op_raised", {"op": "add_sheet", "exc": r_["exc_type"]}, {"msg": r_["exc_msg"]}, case=case)
                    return False
                si = len(doc.sheets) - 1
                trs.append(TableRef(tr.doc_i, si, 0, doc.sheets[si].tables[0], Grid(R, Cn)))
                kinds.append("add_sheet")
            else:
                continue
        elif c < .9:
            nm = f"Renamed {step}"
            doc = docs_[tr.doc_i]
            if rng.random() < .5:
                # a name that another table of this sheet gave up earlier is free again: the lookup by name must follow
                pool = freed.setdefault(("t", tr.doc_i, tr.sheet_i), [])
                taken = {x.name for x in doc.sheets[tr.sheet_i].tables}
                cand = [x for x in pool if x not in taken]
                if cand and rng.random() < .5:
                    nm = rng.choice(cand)
                    rec.count("renames_onto_a_freed_name")
                pool.append(tr.table.name)
                log.call({"op": "rename_table", "table": tr.where(), "name": nm}, lambda: setattr(tr.table, "name", nm))
            else:
                pool = freed.setdefault(("s", tr.doc_i), [])
                taken = {x.name for x in doc.sheets}
                cand = [x for x in pool if x not in taken]
                nm = "S" + nm
                if cand and rng.random() < .5:
                    nm = rng.choice(cand)
                    rec.count("renames_onto_a_freed_name")
                pool.append(doc.sheets[tr.sheet_i].name)
                log.call({"op": "rename_sheet", "table": tr.where(), "name": nm}, lambda: setattr(doc.sheets[tr.sheet_i], "name", nm))
            kinds.append("rename")
        elif nsaves < 3:
            nsaves += 1
            mine = [x for x in trs if x.doc_i == tr.doc_i]
            if not save_and_check(docs_[tr.doc_i], tr.doc_i, mine, rec, case, log, package=rng.random() < .2):
                return False
            if rng.random() < .4:
                rec.count("second_saves")
                if not save_and_check(docs_[tr.doc_i], tr.doc_i, mine, rec, case, log):
                    return False
            kinds.append("save")
        if op is not None:
            opl = dict(op)
            opl["table"] = tr.where()
            r_, _ = log.call(opl, lambda: apply_to_table(op, tr.table))
            rec.count("ops_checked")
            if "default" in op:
                rec.count("inserts_with_default")
            if r_["outcome"] == "exc":
                rec.violation("in_contract_op_raised", {"op": op["op"], "exc": r_["exc_type"]}, {"op": opl, "msg": r_["exc_msg"], "log": log.export(6)}, case=case)
                return False
            apply_to_model(op, g)
            kinds.append(op["op"] + ("@" + str(op.get("n", 1)) if op["op"] != "write" else ""))
            if not compare_table(tr, rec, case, log):
                return False
        # isolation: every *other* table is unchanged in shape (cheap), in full at checkpoints
        full = step % 25 == 24 or step == nops - 1
        for other in trs:
            if other is tr:
                continue
            rec.count("cross_table_checks")
            if not compare_table(other, rec, case, log, view="other-table", full=full):
                rec.note("isolation violated")
                return False
    # final save of every document
    for di, doc in enumerate(docs_):
        mine = [x for x in trs if x.doc_i == di]
        if not save_and_check(doc, di, mine, rec, case, log):
            return False
    rec.case(("random", case["rseed"]), nontrivial=True)
    rec.hist("history_length", (len(kinds) // 25) * 25)
    return True


def run_random(spec, rec):
    rng = random.Random(f"C03-{spec['seed']}-{spec['stream']}")
    for i in range(spec["n"]):
        case = {"part": "random", "rseed": rng.randrange(1 << 40), "nops": rng.randint(30, 200)}
        try:
            run_random_history(case, rec)
        except Exception as e:  # noqa: BLE001 - harness bug guard: never a silent pass
            import traceback
            rec.inconclusive("C03 harness exception: " + traceback.format_exc()[-600:])
        if i == 0:
            rec.sample({"random_history": case})


# ---------------------------------------------------------------------------------------
def run_hostile(spec, rec):
    """Out-of-contract arguments: raise IndexError/ValueError and change nothing, or act like
    the clamped operation; table_shape must hold either way."""
    from numbers_parser import Document
    from vf.events import EventLog
    hostile = []
    for which in ("add_row", "add_column", "delete_row", "delete_column"):
        for n in (-1, -2, 0, 5, 100):
            for start in (None, -1, 0, 1, "size", "size+5"):
                hostile.append((which, n, start))
    for (R, C) in ((3, 3), (1, 1), (2, 4)):
        for which, n, start in hostile:
            with warnings.catch_warnings():
                warnings.simplefilter("ignore")
                doc = Document(num_rows=R, num_cols=C, num_header_rows=0, num_header_cols=0)
            t = doc.sheets[0].tables[0]
            g = Grid(R, C)
            k = 0
            for r in range(R):
                for c in range(C):
                    t.write(r, c, k)
                    g.write(r, c, k)
                    k += 1
            size = R if "row" in which else C
            st = start
            if start == "size":
                st = size
            elif start == "size+5":
                st = size + 5
            op = {"op": which, "n": n}
            if st is not None:
                op["start"] = st
            if in_contract(op, g) and n != 0:
                continue  # not hostile for this shape
            case = {"part": "hostile", "shape": [R, C], "op": op}
            log = EventLog()
            r_, _ = log.call(op, lambda: apply_to_table(op, t))
            rec.count("hostile_ops")
            rec.case(("hostile", R, C, which, n, start))
            tr = TableRef(0, 0, 0, t, g)
            if r_["outcome"] == "exc":
                if r_["exc_type"] not in ("IndexError", "ValueError"):
                    rec.violation("hostile_wrong_exception", {"op": which, "exc": r_["exc_type"], "n_class": "neg" if n < 0 else "zero" if n == 0 else "oversized"},
                                  {"op": op, "msg": r_["exc_msg"]}, case=case)
                compare_table(tr, rec, case, log, view="after-refused-op", xf={"op": which, "n_class": "neg" if n < 0 else "zero" if n == 0 else "oversized"})
                continue
            # accepted: must equal the clamped operation, or (count 0) be a no-op
            g2 = g.copy()
            if n == 0:
                pass
            elif which.startswith("delete"):
                lo = 0 if st is None else max(0, min(st, size))
                if st is None:
                    nn = max(0, min(n, size))
                    getattr(g2, which)(nn, None)
                else:
                    nn = max(0, min(n, size - lo))
                    getattr(g2, which)(nn, lo)
            else:
                nn = max(0, n)
                s2 = None if st is None else max(0, min(st, size))
                getattr(g2, which)(nn, s2)
            tr2 = TableRef(0, 0, 0, t, g2)
            if g2.rows == 0 or g2.cols == 0:
                # clamped to nothing left: only the shape invariant is demanded
                bad = table_shape_violations(t)
                if bad:
                    rec.violation("table_shape", {"view": "after-hostile-op", "what": bad[0].split(" ")[0][:20]}, {"op": op, "problems": bad[:3]}, case=case)
                continue
            compare_table(tr2, rec, case, log, view="after-hostile-op", xf={"op": which, "n_class": "neg" if n < 0 else "zero" if n == 0 else "oversized"})
    # writes the library must refuse (a position beyond the documented limits of 1 000 000 rows / 1000 columns, or negative):
    # IndexError, and the table - also the part of it the position would have grown - is what it was
    for (R, C) in ((3, 3), (5, 2)):
        for (r, c) in ((R + 4, 1000), (R + 1, 1001), (1_000_000, C + 2), (1_000_001, 0), (R + 2, -1), (-1, C + 3), (0, 5000), (R, 1000), (2_000_000, 2000)):
            with warnings.catch_warnings():
                warnings.simplefilter("ignore")
                doc = Document(num_rows=R, num_cols=C, num_header_rows=0, num_header_cols=0)
            t = doc.sheets[0].tables[0]
            g = Grid(R, C)
            for rr in range(R):
                for cc in range(C):
                    t.write(rr, cc, rr * 10 + cc)
                    g.write(rr, cc, rr * 10 + cc)
            op = {"op": "write", "r": r, "c": c, "v": V.enc("refused")}
            case = {"part": "hostile-write", "shape": [R, C], "op": op}
            log = EventLog()
            r_, _ = log.call(op, lambda: t.write(r, c, "refused"))
            rec.count("hostile_ops")
            rec.count("refused_writes")
            rec.case(("hostile-write", R, C, r, c))
            if r_["outcome"] != "exc":
                rec.violation("hostile_write_accepted", {"axis": "col" if c >= 1000 or c < 0 else "row"}, {"op": op, "shape_after": [t.num_rows, t.num_cols]}, case=case)
                continue
            if r_["exc_type"] != "IndexError":
                rec.violation("hostile_wrong_exception", {"op": "write", "exc": r_["exc_type"], "n_class": "beyond-limit"}, {"op": op, "msg": r_["exc_msg"]}, case=case)
            compare_table(TableRef(0, 0, 0, t, g), rec, case, log, view="after-refused-op", xf={"op": "write", "n_class": "beyond-limit"})
    rec.sample({"hostile": hostile[:4]})


def run_shard(spec, rec):
    if "cases" in spec:
        for c in spec["cases"]:
            replay(c, rec)
        return
    {"exh": run_exh, "random": run_random, "hostile": run_hostile}[spec["part"]](spec, rec)


def replay(case, rec):
    p = case.get("part")
    if p == "short":
        run_short(tuple(case["shape"]), case["ops"], rec, case, case.get("save", False))
        rec.case(("replay", str(case)[:80]))
    elif p == "random":
        run_random_history(case, rec)
    else:
        run_hostile({"seed": 0, "tier": "quick"}, rec)
