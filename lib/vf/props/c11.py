"""C11 - A1 and row/column addressing reach the same cell in every call; bounds hold.

Twin execution: two tables built by the same recipe, one driven with A1 strings, one with
integers; their observable snapshots (shape, values, applied style, displayed text, borders)
are compared after each call, and both against the plain-grid expectation for sizes:
 * reads outside the table and any negative / beyond-limit position raise IndexError and
   change nothing;
 * in-limit writes grow the table to exactly max(old, needed);
 * iter_rows / iter_cols visit exactly the addressed rectangle in order (slice model).
"""
from __future__ import annotations

import itertools
import random
import warnings

ID = "C11"
LEVEL = "exploration"
CONTRACTS = ("a1_inverse",)
REACH = {"Table.cell": "Table.cell", "Table.write": "Table.write", "Table.set_cell_style": "Table.set_cell_style",
         "Table.set_cell_formatting": "Table.set_cell_formatting", "Table.set_cell_border": "Table.set_cell_border",
         "Table._validate_cell_coords": "_validate_cell_coords", "Table.iter_rows": "Table.iter_rows", "Table.iter_cols": "Table.iter_cols"}
ASSUMPTIONS = ["documented limits: MAX_ROW_COUNT = 1 000 000 rows, MAX_COL_COUNT = 1000 columns",
               "a non-canonical A1 spelling (lower case, '', trailing junk) may be rejected with IndexError or treated as the canonical position; it must not act on a third cell",
               "set_cell_formatting on an empty (grown) cell may raise TypeError (format not allowed for the cell type): both notations must then agree",
               "growth acceptance is bounded (rows <= 257 x cols <= 10, rows <= 5 x cols <= 999, plus a fixed list of larger cases) because growth costs O(r*c^2); rows > 100000 are not grown",
               "for iteration with min > max the rectangle is empty: IndexError or an empty visit are both accepted"]
MAXR, MAXC = 1_000_000, 1000
METHODS = ["cell", "write", "style", "format", "border"]


def rule(tier):
    return ("cases = (method in {cell, write, set_cell_style, set_cell_formatting, set_cell_border}, row, column, notation incl. '$' forms, lower case, 'A0', '', letters only, 4-letter column) "
            "over rows {-3..2, n-2..n+2, 255..257, 999998..1000001} x columns {-3..2, m-2..m+2, 255, 256, 998..1001}: the full product for rejection, a bounded product for growth; "
            "iteration: all (min,max) pairs from {None,0,1,last-1,last,last+1,-1} on both axes x both iterators x values_only on 1x1, 3x4, 12x8 tables. "
            "distinct = distinct (method, position, notation, shape); non-trivial = position outside the table or a mutating method")


def floors(tier):
    return {"evaluations": 9000, "distinct": 9000,
            "counters": {"twin_calls": 3000, "rejections_observed": 1500, "growth_cases": 200, "iteration_calls": 9000, "a1_spellings_noncanonical": 80,
                         "negative_positions": 500, "beyond_limit_positions": 300, "large_growth_cases": 2, "contract:a1_inverse.parse": 1000,
                         "history_position_calls": 5000, "history_structural_ops": 1500, "history_repeated_positions": 2500, "history_calls_with_marked_references": 2000}}


SHAPES = [(3, 3), (1, 1), (12, 8)]
BIG_QUICK = [(5000, 1), (257, 257), (29, 999)]
BIG_THOROUGH = [(100_000, 0), (1000, 300), (300, 999), (5000, 1), (257, 257), (29, 999), (513, 40), (2, 999)]


def plan(tier, seed):
    specs = []
    for si in range(len(SHAPES)):
        for m in METHODS:
            specs.append({"part": "reject", "shape": si, "method": m, "tier": tier, "seed": seed})
    # acceptance (growth): split by method and row band
    for m in METHODS[1:]:
        for band in range(4):
            specs.append({"part": "grow", "method": m, "band": band, "tier": tier, "seed": seed})
    for case in (BIG_QUICK if tier == "quick" else BIG_THOROUGH):
        specs.append({"part": "big", "pos": list(case), "tier": tier, "seed": seed})
    for si in range(3):
        for it in ("iter_rows", "iter_cols"):
            specs.append({"part": "iter", "shape": si, "iterator": it, "tier": tier, "seed": seed})
    specs.append({"part": "spellings", "tier": tier, "seed": seed})
    for i in range(8 if tier == "quick" else 32):
        specs.append({"part": "histories", "stream": i, "n": 60 if tier == "quick" else 1000, "tier": tier, "seed": seed})
    return specs


# ---------------------------------------------------------------------------------------
def mk(R, C):
    """A document with an RxC table of distinct floats, a style and nothing else."""
    from numbers_parser import Document
    with warnings.catch_warnings():
        warnings.simplefilter("ignore")
        d = Document(num_rows=R, num_cols=C, num_header_rows=0, num_header_cols=0)
        t = d.sheets[0].tables[0]
        for r in range(R):
            for c in range(C):
                t.write(r, c, float(r * 1000 + c) + 0.5)
        st = d.add_style(name="VF", bold=True)
    return d, t, st


def snapshot(t, light=False):
    out = [t.num_rows, t.num_cols, len(t._data), [len(r) for r in t._data[:4]]]
    if light and t.num_rows * t.num_cols > 4000:
        return out
    cells = []
    for row in t._data:
        for cell in row:
            st = cell._style.name if cell._style is not None else None
            try:
                fv = cell.formatted_value
            except Exception as e:  # noqa: BLE001
                fv = "raised:" + type(e).__name__
            b = cell._border
            bs = tuple(str(getattr(b, s)) if b is not None and getattr(b, s) is not None else None for s in ("top", "right", "bottom", "left"))
            cells.append((type(cell).__name__, cell.value, st, fv, bs, cell.row, cell.col))
    out.append(cells)
    return out


def invoke(method, t, st, pos):
    from numbers_parser import RGB, Border
    if method == "cell":
        c = t.cell(*pos)
        return ("cell", c.row, c.col, c.value)
    if method == "write":
        return t.write(*pos, "W")
    if method == "style":
        return t.set_cell_style(*pos, st)
    if method == "format":
        return t.set_cell_formatting(*pos, "number", decimal_places=2)
    if method == "border":
        return t.set_cell_border(*pos, "top", Border(2.0, RGB(1, 2, 3), "solid"))
    raise ValueError(method)


class GrowthBudgetExceeded(BaseException):
    """Failpoint: raised from inside Table.add_row/add_column when a call grows the table by
    more than the budget the case allows.  It keeps a position that had to be *rejected* (and
    is accepted instead) from growing a table to a million rows; the outcome is recorded as
    'GROWING' - evidence that the position was not rejected."""


_budget = {"left": None}


def install_growth_failpoint():
    from numbers_parser.document import Table
    if getattr(Table, "_vf_failpoint", False):
        return
    for name in ("add_row", "add_column"):
        orig = getattr(Table, name)

        def wrapped(self, *a, _orig=orig, **k):
            if _budget["left"] is not None:
                _budget["left"] -= 1
                if _budget["left"] < 0:
                    raise GrowthBudgetExceeded
            return _orig(self, *a, **k)
        setattr(Table, name, wrapped)
    Table._vf_failpoint = True


def outcome_of(fn, budget=None):
    install_growth_failpoint()
    _budget["left"] = budget
    try:
        return ("ret", fn())
    except IndexError as e:
        return ("IndexError", str(e)[:80])
    except GrowthBudgetExceeded:
        return ("GROWING", "growth budget exceeded: the call started to grow the table")
    except Exception as e:  # noqa: BLE001
        return ("EXC:" + type(e).__name__, str(e)[:80])
    finally:
        _budget["left"] = None


def expected(method, r, c, R, C):
    """-> 'ret' | 'IndexError' and expected size after the call."""
    if method == "cell":
        return ("ret" if 0 <= r < R and 0 <= c < C else "IndexError"), (R, C)
    legal = 0 <= r < MAXR and 0 <= c < MAXC
    if not legal:
        return "IndexError", (R, C)
    return "ret", (max(R, r + 1), max(C, c + 1))


def pos_class(r, c, R, C):
    if r < 0 or c < 0:
        return "negative"
    if r >= MAXR or c >= MAXC:
        return "beyond-limit"
    if r >= R or c >= C:
        return "outside-table"
    return "inside"


def twin_case(method, r, c, R, C, rec, reuse=None, a1form="canonical"):
    """One position through both notations on twin tables.  reuse: (tn, sn, ta, sa) tables to
    reuse when the call is expected not to modify anything (rejections / reads)."""
    from vf.ref import a1
    case = {"part": "twin", "method": method, "r": r, "c": c, "shape": [R, C], "a1form": a1form}
    exp, exp_size = expected(method, r, c, R, C)
    pc = pos_class(r, c, R, C)
    if reuse is not None and (exp == "IndexError" or method == "cell"):
        (dn, tn, sn), (da, ta, sa) = reuse
    else:
        dn, tn, sn = mk(R, C)
        da, ta, sa = mk(R, C)
    budget = 40 if exp == "IndexError" else (exp_size[0] - R) + (exp_size[1] - C) + 10
    before_n = snapshot(tn, light=True)
    with warnings.catch_warnings():
        warnings.simplefilter("ignore")
        on = outcome_of(lambda: invoke(method, tn, sn, (r, c)), budget)
    after_n = snapshot(tn, light=True)
    rec.count("twin_calls")
    rec.hist("position_class", pc)
    if pc == "negative":
        rec.count("negative_positions")
    elif pc == "beyond-limit":
        rec.count("beyond_limit_positions")
    fields = {"method": method, "pos": pc, "notation": "rowcol"}
    # --- row/column form against the specification
    if on[0] != exp:
        if method == "format" and on[0] == "EXC:TypeError" and pc == "outside-table":
            pass  # formatting an empty grown cell: not allowed for the cell type
        elif on[0] in ("ret", "GROWING") and exp == "IndexError":
            rec.violation("position_not_rejected", fields, {"r": r, "c": c, "shape": [R, C], "size_after": after_n[:2], "outcome": on[0]}, case=case)
        elif exp == "ret":
            rec.violation("legal_position_refused", {**fields, "outcome": on[0]}, {"r": r, "c": c, "shape": [R, C], "msg": on[1]}, case=case)
        else:
            rec.violation("wrong_exception", {**fields, "outcome": on[0]}, {"r": r, "c": c, "shape": [R, C], "msg": on[1]}, case=case)
    if on[0] not in ("ret", "GROWING") and after_n != before_n and not (method == "format" and on[0] == "EXC:TypeError"):
        rec.violation("rejected_call_changed_table", fields, {"r": r, "c": c, "before": before_n[:4], "after": after_n[:4]}, case=case)
    if on[0] == "IndexError":
        rec.count("rejections_observed")
    if on[0] == "ret" and exp == "ret":
        if tuple(after_n[:2]) != exp_size:
            rec.violation("growth_size", fields, {"r": r, "c": c, "shape": [R, C], "got": after_n[:2], "want": list(exp_size)}, case=case)
        if method != "cell" and pc == "outside-table":
            rec.count("growth_cases")
        if method == "cell" and on[1][1:3] != (r, c):
            rec.violation("read_wrong_cell", fields, {"r": r, "c": c, "got": list(on[1])}, case=case)
    # --- A1 form, where expressible
    if r >= -1 and c >= 0 and c < 18278:
        if r == -1:
            text = a1.col_name(c) + "0"  # 'A0'
        else:
            text = a1.cell_name(r, c, a1form in ("abs", "rowabs"), a1form in ("abs", "colabs"))
        before_a = snapshot(ta, light=True)
        with warnings.catch_warnings():
            warnings.simplefilter("ignore")
            oa = outcome_of(lambda: invoke(method, ta, sa, (text,)), budget)
        after_a = snapshot(ta, light=True)
        rec.count("twin_calls")
        fa = {"method": method, "pos": pc, "notation": "A1" if r >= 0 else "A0"}
        if oa[0] != on[0] or after_a != after_n:
            # discrepancy between the notations: say which one deviates from the specification
            if oa[0] in ("ret", "GROWING") and exp == "IndexError":
                rec.violation("position_not_rejected", fa, {"text": text, "shape": [R, C], "size_after": after_a[:2]}, case=case)
            elif oa[0] not in ("ret", "GROWING") and after_a != before_a and not (method == "format" and oa[0] == "EXC:TypeError"):
                rec.violation("rejected_call_changed_table", fa, {"text": text}, case=case)
            else:
                rec.violation("notations_disagree", {"method": method, "pos": pc}, {"text": text, "r": r, "c": c, "rowcol": [on[0], after_n[:2]], "a1": [oa[0], after_a[:2]]}, case=case)
        elif oa[0] in ("ret", "GROWING") and exp == "IndexError":
            rec.violation("position_not_rejected", fa, {"text": text, "shape": [R, C]}, case=case)
        elif oa[0] not in ("ret", "GROWING") and after_a != before_a and not (method == "format" and oa[0] == "EXC:TypeError"):
            rec.violation("rejected_call_changed_table", fa, {"text": text}, case=case)
    rec.case((method, r, c, R, C, a1form), nontrivial=pc != "inside" or method != "cell")


def positions(R, C):
    rows = sorted({-3, -2, -1, 0, 1, 2, R - 2, R - 1, R, R + 1, R + 2, 255, 256, 257, MAXR - 2, MAXR - 1, MAXR, MAXR + 1} - {x for x in (R - 2,) if x < -3})
    cols = sorted({-3, -2, -1, 0, 1, 2, C - 2, C - 1, C, C + 1, C + 2, 255, 256, MAXC - 2, MAXC - 1, MAXC, MAXC + 1})
    return rows, cols


def run_reject(spec, rec):
    """Full product; only the non-growing cases (reads, rejections, in-table writes)."""
    R, C = SHAPES[spec["shape"]]
    m = spec["method"]
    rows, cols = positions(R, C)
    reuse = (mk(R, C), mk(R, C))
    pristine = snapshot(reuse[0][1])
    for r in rows:
        for c in cols:
            exp, size = expected(m, r, c, R, C)
            if exp == "ret" and size != (R, C):
                continue  # growth: the 'grow' part
            if snapshot(reuse[0][1], light=True)[:4] != pristine[:4] or snapshot(reuse[1][1], light=True)[:4] != pristine[:4] or snapshot(reuse[0][1]) != pristine or snapshot(reuse[1][1]) != pristine:
                reuse = (mk(R, C), mk(R, C))  # a misbehaving call modified the shared tables: start clean
            twin_case(m, r, c, R, C, rec, reuse=reuse if exp == "IndexError" or m == "cell" else None,
                      a1form=("canonical", "abs", "rowabs", "colabs")[(r + c) % 4])
    rec.sample({"shape": [R, C], "method": m, "rows": rows, "cols": cols})


def run_grow(spec, rec):
    """Acceptance product bounded by what growth costs: rows <= 257 x cols <= 10; rows <= 5 x cols <= 999."""
    m = spec["method"]
    band = spec["band"]
    R, C = 3, 3
    rowsA = [3, 4, 5, 6, 254, 255, 256, 257]
    colsA = [0, 2, 3, 4, 9, 10]
    rowsB = [0, 2, 3, 4, 5]
    colsB = [25, 26, 255, 256, 257, 701, 702, 998, 999]
    cases = [(r, c) for r in rowsA for c in colsA if r >= R or c >= C] + [(r, c) for r in rowsB for c in colsB]
    mine = cases[band::4]
    for r, c in mine:
        if (r + 1) * (c + 1) ** 2 > 6_000_000 and spec["tier"] == "quick":
            continue
        twin_case(m, r, c, R, C, rec, a1form=("canonical", "abs")[(r + c) % 2])
    rec.sample({"method": m, "growth_positions": [list(x) for x in mine[:6]]})


def run_big(spec, rec):
    r, c = spec["pos"]
    from numbers_parser import Document
    from vf.ref import a1
    case = {"part": "big", "pos": [r, c]}
    with warnings.catch_warnings():
        warnings.simplefilter("ignore")
        for notation in ("rowcol", "A1"):
            d = Document(num_rows=2, num_cols=2, num_header_rows=0, num_header_cols=0)
            t = d.sheets[0].tables[0]
            o = outcome_of(lambda: t.write(r, c, "W") if notation == "rowcol" else t.write(a1.cell_name(r, c), "W"))
            if o[0] != "ret":
                rec.violation("legal_position_refused", {"method": "write", "pos": "outside-table", "notation": notation, "outcome": o[0]}, {"r": r, "c": c, "msg": o[1]}, case=case)
                continue
            want = (max(2, r + 1), max(2, c + 1))
            if (t.num_rows, t.num_cols) != want or len(t._data) != want[0] or len(t._data[-1]) != want[1]:
                rec.violation("growth_size", {"method": "write", "pos": "outside-table", "notation": notation}, {"r": r, "c": c, "got": [t.num_rows, t.num_cols], "want": list(want)}, case=case)
            if t.cell(r, c).value != "W" or (t.cell(r, c).row, t.cell(r, c).col) != (r, c):
                rec.violation("read_wrong_cell", {"method": "write", "pos": "outside-table", "notation": notation}, {"r": r, "c": c}, case=case)
            rec.count("large_growth_cases")
            rec.count("growth_cases")
            rec.case(("big", r, c, notation))
    rec.sample({"large_growth": [r, c]})


def run_spellings(spec, rec):
    """Non-canonical spellings: rejected with IndexError (nothing changes) or treated as the
    canonical position - never a third cell."""
    R, C = 4, 4
    spell = [("b2", (1, 1)), ("", (0, 0)), ("B", None), ("2", None), ("$b$2", (1, 1)), ("AAAA1", None), ("B2 ", (1, 1)), (" B2", (1, 1)), ("B02", (1, 1)),
             ("B2:C3", (1, 1)), ("B-2", None), ("B2.0", (1, 1)), ("Ｂ2", None), ("B٢", (1, 1)), ("ZZZZ9", None), ("A0", None), ("$A$0", None), ("B+2", None)]
    for method in METHODS:
        for text, canon in spell:
            d, t, st = mk(R, C)
            before = snapshot(t)
            with warnings.catch_warnings():
                warnings.simplefilter("ignore")
                o = outcome_of(lambda: invoke(method, t, st, (text,)), 40)
            after = snapshot(t)
            rec.count("a1_spellings_noncanonical")
            rec.count("twin_calls")
            case = {"part": "spelling", "method": method, "text": text}
            rec.case(("spelling", method, text))
            if o[0] == "IndexError":
                if after != before:
                    rec.violation("rejected_call_changed_table", {"method": method, "pos": "spelling", "notation": "A1-noncanonical"}, {"text": text}, case=case)
                rec.count("rejections_observed")
                continue
            if o[0] == "GROWING":
                rec.violation("position_not_rejected", {"method": method, "pos": "spelling", "notation": "A1-noncanonical"}, {"text": text, "outcome": "GROWING"}, case=case)
                continue
            if o[0].startswith("EXC"):
                rec.violation("wrong_exception", {"method": method, "pos": "spelling", "notation": "A1-noncanonical", "outcome": o[0]}, {"text": text, "msg": o[1]}, case=case)
                continue
            # accepted: must be the canonical position (if there is one) and nothing else
            if canon is None:
                # no canonical position exists for this text: which cell did it touch?
                touched = [i for i, (x, y) in enumerate(zip(before[4], after[4])) if x != y] if method != "cell" else []
                rec.violation("position_not_rejected", {"method": method, "pos": "spelling", "notation": "A1-noncanonical"},
                              {"text": text, "touched": touched[:4], "size_after": after[:2], "returned": repr(o[1])[:80]}, case=case)
                continue
            d2, t2, st2 = mk(R, C)
            with warnings.catch_warnings():
                warnings.simplefilter("ignore")
                o2 = outcome_of(lambda: invoke(method, t2, st2, canon))
            if snapshot(t2) != after or (method == "cell" and o2 != o):
                rec.violation("notations_disagree", {"method": method, "pos": "spelling"}, {"text": text, "canonical": list(canon)}, case=case)
    rec.sample({"spellings": [s for s, _ in spell]})


def run_iter(spec, rec):
    R, C = [(1, 1), (3, 4), (12, 8)][spec["shape"]]
    it = spec["iterator"]
    d, t, st = mk(R, C)
    grid = [[float(r * 1000 + c) + 0.5 for c in range(C)] for r in range(R)]

    def bounds(last):
        return [None, 0, 1, last - 1, last, last + 1, -1]
    n = 0
    for min_r, max_r, min_c, max_c in itertools.product(bounds(R - 1), bounds(R - 1), bounds(C - 1), bounds(C - 1)):
        for values_only in (True, False):
            n += 1
            kw = {}
            for k, v in (("min_row", min_r), ("max_row", max_r), ("min_col", min_c), ("max_col", max_c)):
                if v is not None:
                    kw[k] = v
            case = {"part": "iter", "shape": [R, C], "iterator": it, "kw": kw, "values_only": values_only}
            r0 = 0 if min_r is None else min_r
            r1 = R - 1 if max_r is None else max_r
            c0 = 0 if min_c is None else min_c
            c1 = C - 1 if max_c is None else max_c
            invalid = r0 < 0 or c0 < 0 or r1 > R - 1 or c1 > C - 1 or r1 < 0 or c1 < 0 or r0 > R - 1 or c0 > C - 1
            empty = (r0 > r1 or c0 > c1) and not invalid
            got = []
            exc = None
            try:
                for tup in getattr(t, it)(values_only=values_only, **kw):
                    got.append(tup)
            except IndexError:
                exc = "IndexError"
            except Exception as e:  # noqa: BLE001
                exc = type(e).__name__
            rec.count("iteration_calls")
            fields = {"iterator": it, "bounds": "invalid" if invalid else "empty" if empty else "valid"}
            key = ("iter", it, R, C, min_r, max_r, min_c, max_c, values_only)
            rec.case(key)
            if invalid:
                which = []
                for name, v, last in (("min_row", min_r, R - 1), ("max_row", max_r, R - 1), ("min_col", min_c, C - 1), ("max_col", max_c, C - 1)):
                    if v is not None and (v < 0 or v > last):
                        which.append(name + ("<0" if v < 0 else ">last"))
                fields["which"] = "+".join(sorted(set(which)))[:60]
                if exc != "IndexError":
                    rec.violation("iteration_bounds_not_rejected", {**fields, "outcome": exc or "completed"}, {"kw": kw, "shape": [R, C], "yielded": len(got)}, case=case)
                elif got:
                    rec.violation("iteration_yielded_before_rejecting", fields, {"kw": kw, "shape": [R, C], "yielded": len(got)}, case=case)
                continue
            if empty:
                if exc not in (None, "IndexError") or any(len(x) for x in got):
                    rec.violation("iteration_rectangle", {**fields, "outcome": exc or "nonempty"}, {"kw": kw, "got": repr(got)[:200]}, case=case)
                continue
            if exc is not None:
                fields["explicit_zero"] = any(v == 0 for v in (max_r, max_c))
                rec.violation("iteration_valid_bounds_raised", {**fields, "exc": exc}, {"kw": kw, "shape": [R, C]}, case=case)
                continue
            if it == "iter_rows":
                want = [tuple(grid[r][c0:c1 + 1]) for r in range(r0, r1 + 1)]
            else:
                want = [tuple(grid[r][c] for r in range(r0, r1 + 1)) for c in range(c0, c1 + 1)]
            if values_only:
                gv = [tuple(x) for x in got]
            else:
                gv = [tuple(cell.value for cell in x) for x in got]
                # cell identity: the cells are the table's own cells at those positions
                ok_ident = True
                if it == "iter_rows":
                    for i, tup in enumerate(got):
                        for j, cell in enumerate(tup):
                            if i < len(want) and j < len(want[i]) and cell is not t.cell(r0 + i, c0 + j):
                                ok_ident = False
                else:
                    for j, tup in enumerate(got):
                        for i, cell in enumerate(tup):
                            if j < len(want) and i < len(want[j]) and cell is not t.cell(r0 + i, c0 + j):
                                ok_ident = False
                if not ok_ident and gv == want:
                    rec.violation("iteration_rectangle", {**fields, "outcome": "cell-identity"}, {"kw": kw}, case=case)
            if gv != want:
                fields["explicit_zero"] = any(v == 0 for v in (max_r, max_c))
                rec.violation("iteration_rectangle", {**fields, "outcome": "wrong-cells"}, {"kw": kw, "shape": [R, C], "got_shape": [len(gv), len(gv[0]) if gv else 0], "want_shape": [len(want), len(want[0]) if want else 0]}, case=case)
    rec.sample({"iterator": it, "shape": [R, C], "calls": n})


def history_case(case, rec):
    """Twin tables through one random history: structural edits (identical on both) interleaved with position-taking calls, the A1
    form on one twin and the row/column form on the other.  The same position text is used again after the table changed
    shape: what a position means is decided when the call is made, not when the text was first seen."""
    from numbers_parser import RGB, Border
    from vf.ref import a1
    rng = random.Random(case["rseed"])
    R, C = rng.randint(4, 8), rng.randint(3, 6)
    _, ta, sa = mk(R, C)
    _, tb, sb = mk(R, C)
    border = Border(2.0, RGB(1, 2, 3), "solid")
    hot = [(rng.randrange(R), rng.randrange(C)) for _ in range(3)]  # positions asked for again and again
    hot_marks = [(rng.random() < .6, rng.random() < .6) for _ in hot]
    log = []
    mR, mC = R, C  # the shape the table must have: kept by the check from the operations made, not read from the table
    emptied = rng.random() < .15
    for step in range(case["steps"]):
        k = rng.random()
        for t in (ta, tb):
            if (t.num_rows, t.num_cols) != (mR, mC):
                rec.violation("shape_after_history", {"twin": "a1" if t is ta else "rowcol", "rows_ok": t.num_rows == mR, "cols_ok": t.num_cols == mC, "emptied": mR == 0},
                              {"want": [mR, mC], "got": [t.num_rows, t.num_cols], "log": log[-8:]}, case=case)
                return
        R, C = mR, mC
        if k < .3 and step:
            which = rng.choice(["add_row", "delete_row", "add_column", "delete_column", "merge"] + (["delete_all_rows"] if emptied and R else []))
            try:
                with warnings.catch_warnings():
                    warnings.simplefilter("ignore")
                    if which == "add_row":
                        kw = {"num_rows": rng.randint(1, 2), **({"start_row": rng.randrange(R)} if R else {})}
                        ta.add_row(**kw); tb.add_row(**kw)
                        mR += kw["num_rows"]
                    elif which == "delete_row" and R > 3:
                        kw = {"num_rows": 1, "start_row": rng.choice([0, R - 1, rng.randrange(R)])}
                        ta.delete_row(**kw); tb.delete_row(**kw)
                        mR -= 1
                    elif which == "delete_all_rows":
                        # every row goes; the columns stay what they are and can still be removed or added
                        kw = {"num_rows": R}
                        ta.delete_row(**kw); tb.delete_row(**kw)
                        mR = 0
                        rec.count("history_tables_emptied")
                    elif which == "add_column":
                        kw = {"num_cols": 1, "start_col": rng.randrange(C)}
                        ta.add_column(**kw); tb.add_column(**kw)
                        mC += 1
                    elif which == "delete_column" and C > (3 if R else 1):
                        kw = {"num_cols": rng.randint(1, 2) if not R and C > 2 else 1, "start_col": rng.choice([0, C - 1, rng.randrange(C)])}
                        if kw["num_cols"] > 1:
                            kw["start_col"] = min(kw["start_col"], C - kw["num_cols"])
                        ta.delete_column(**kw); tb.delete_column(**kw)
                        mC -= kw["num_cols"]
                    else:
                        continue
                log.append([which, kw])
                rec.count("history_structural_ops")
            except Exception as e:  # noqa: BLE001 - C03's business; the history ends here
                rec.note(f"C11 history: structural op raised {type(e).__name__}")
                return
            continue
        r, c = rng.choice(hot) if rng.random() < .6 or not R or not C else (rng.randrange(R), rng.randrange(C))
        if r >= R or c >= C:
            # outside now: a read in either form must raise IndexError; a write (inside the limits) grows the table to exactly the size needed
            method = "write" if rng.random() < .3 else "cell"
            if method == "write":
                rec.count("history_growing_writes")
        else:
            method = rng.choice(["cell", "cell", "write", "style", "format", "border"])
        # the A1 twin spells the position with any of the four '$' forms (a repeated position keeps turning up in all of them)
        ra, ca = rng.random() < .3, rng.random() < .3
        if (r, c) in hot and rng.random() < .6:
            ra, ca = hot_marks[hot.index((r, c))]  # the same spelling of the same position, again and again
        name = a1.cell_name(r, c, ra, ca)
        if ra or ca:
            rec.count("history_calls_with_marked_references")
        log.append([method, r, c, name])

        def call(t, st, pos):
            with warnings.catch_warnings():
                warnings.simplefilter("ignore")
                try:
                    if method == "cell":
                        x = t.cell(*pos)
                        return ("ok", x.row, x.col, repr(x.value), type(x).__name__)
                    if method == "write":
                        t.write(*pos, f"W{step}")
                    elif method == "style":
                        t.set_cell_style(*pos, st)
                    elif method == "format":
                        t.set_cell_formatting(*pos, "number", decimal_places=2)
                    else:
                        t.set_cell_border(*pos, "top", border)
                    return ("ok",)
                except IndexError:
                    return ("IndexError",)
                except Exception as e:  # noqa: BLE001
                    return ("exc", type(e).__name__)
        oa, ob = call(ta, sa, (name,)), call(tb, sb, (r, c))
        rec.count("history_position_calls")
        if (r, c) in hot:
            rec.count("history_repeated_positions")
        fx = {"method": method, "after_structural": any(x[0] in ("add_row", "delete_row", "add_column", "delete_column") for x in log[:-1])}
        if oa != ob:
            rec.violation("a1_vs_rowcol_outcome", {**fx, "a1": oa[0], "rowcol": ob[0]}, {"pos": [r, c], "a1": name, "got_a1": list(oa), "got_rowcol": list(ob), "log": log[-8:]}, case=case)
            return
        if method == "cell" and oa[0] == "ok" and (oa[1], oa[2]) != (r, c):
            rec.violation("cell_reports_other_position", fx, {"pos": [r, c], "got": list(oa), "log": log[-8:]}, case=case)
            return
        if (r >= R or c >= C) and method == "cell":
            if oa[0] != "IndexError":
                rec.violation("position_not_rejected", {**fx, "outcome": oa[0]}, {"pos": [r, c], "shape": [R, C], "log": log[-8:]}, case=case)
                return
            continue
        if (r >= R or c >= C) and method == "write":
            if oa[0] != "ok":
                rec.violation("growing_write_refused", {**fx, "outcome": oa[0], "emptied": R == 0}, {"pos": [r, c], "shape": [R, C], "got": list(oa), "log": log[-8:]}, case=case)
                return
            mR, mC = max(mR, r + 1), max(mC, c + 1)
        if oa[0] == "ok" and method in ("write", "border", "style"):
            # the addressed cell - the one cell(r, c) returns - carries what was just done, on both twins
            for t in (ta, tb):
                x = t.cell(r, c)
                good = {"write": lambda: x.value == f"W{step}", "style": lambda: x.style is not None and x.style.name == "VF",
                        "border": lambda: x.border.top is not None and abs(x.border.top.width - 2.0) < 1e-9}[method]()
                if not good:
                    rec.violation("call_acted_on_another_cell", fx, {"pos": [r, c], "twin": "a1" if t is ta else "rowcol", "log": log[-8:]}, case=case)
                    return
        if step % 6 == 5:
            if snapshot(ta) != snapshot(tb):
                rec.violation("twin_tables_differ", fx, {"log": log[-8:]}, case=case)
                return
    if snapshot(ta) != snapshot(tb):
        rec.violation("twin_tables_differ", {"method": "final", "after_structural": True}, {"log": log[-8:]}, case=case)
    rec.case(("history", case["rseed"]), nontrivial=True)


def run_histories(spec, rec):
    rng = random.Random(f"C11-hist-{spec['seed']}-{spec['stream']}")
    for i in range(spec["n"]):
        case = {"part": "history", "rseed": rng.randrange(1 << 40), "steps": rng.randint(12, 40)}
        history_case(case, rec)
        if i == 0:
            rec.sample({"history": case})


def run_shard(spec, rec):
    if "cases" in spec:
        for c in spec["cases"]:
            replay(c, rec)
        return
    if spec["part"] == "histories":
        return run_histories(spec, rec)
    {"reject": run_reject, "grow": run_grow, "big": run_big, "iter": run_iter, "spellings": run_spellings}[spec["part"]](spec, rec)


def replay(case, rec):
    p = case.get("part")
    if p == "history":
        return history_case(case, rec)
    if p == "twin":
        twin_case(case["method"], case["r"], case["c"], case["shape"][0], case["shape"][1], rec, a1form=case.get("a1form", "canonical"))
    elif p == "big":
        run_big({"pos": case["pos"]}, rec)
    elif p == "spelling":
        run_spellings({}, rec)
    elif p == "iter":
        shape = [(1, 1), (3, 4), (12, 8)].index(tuple(case["shape"]))
        run_iter({"shape": shape, "iterator": case["iterator"]}, rec)
