"""pytest plugin: run the repository's own, unedited tests with the nsan contracts loaded
("suite under monitors").  Test outcomes are ignored; only monitor records count.  Each
pytest process (xdist worker or controller) dumps its recorder to $VF_SUITE_OUT/<pid>.json."""
import json
import os

_rec = None


def pytest_configure(config):
    global _rec
    out = os.environ.get("VF_SUITE_OUT")
    if not out:
        return
    from vf import nsan
    from vf.rec import Recorder
    _rec = Recorder(os.environ.get("VF_SUITE_PROP", "SUITE"))
    names = [n for n in os.environ.get("VF_SUITE_CONTRACTS", "").split(",") if n]
    nsan.install(_rec, names)
    if _rec.inconclusive_reasons:
        raise RuntimeError("nsan install failed: " + "; ".join(_rec.inconclusive_reasons))


def pytest_unconfigure(config):
    out = os.environ.get("VF_SUITE_OUT")
    if not out or _rec is None:
        return
    os.makedirs(out, exist_ok=True)
    with open(os.path.join(out, f"{os.getpid()}.json"), "w") as f:
        json.dump(_rec.dump(), f)
